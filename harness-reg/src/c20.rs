//! C20 — registry resolution returns the right content for every requested key.
//!
//! Monitor: a history checker with unambiguous values.  One in-process Warg server per worker;
//! every published release carries a unique tag (a custom section naming `name@version`, padded
//! to very different sizes), so returned bytes identify the release they came from.  Each history
//! is one `RegistryPackageResolver::resolve` call on 1..6 keys in a random order, with the guarded
//! hook delaying the download tasks so that they complete in a chosen order; the completion order
//! actually observed is read back from the hook.

use crate::ctx::Ctx;
use crate::util::Rng;
use indexmap::IndexMap;
use miette::SourceSpan;
use semver::Version;
use serde_json::json;
use std::path::Path;
use std::time::Duration;
use tokio_util::sync::CancellationToken;
use wac_resolver::{Error, RegistryPackageResolver};
use wac_types::BorrowedPackageKey;
use warg_client::storage::{ContentStorage, PublishEntry, PublishInfo};
use warg_client::FileSystemClient;
use warg_crypto::signing::PrivateKey;
use warg_protocol::operator::NamespaceState;
use warg_protocol::registry::PackageName;
use warg_server::{policy::content::WasmContentPolicy, Config, Server};

const OPERATOR_KEY: &str = "ecdsa-p256:I+UlDo0HxyBBFeelhPPWmD+LnklOpqZDkrFP5VduASk=";
const SIGNING_KEY: &str = "ecdsa-p256:2CV1EpLaSYEn4In4OAEDAj5O4Hzu8AFAxgHXuG310Ew=";

/// (package, releases in publication order)
const PUBLISHED: &[(&str, &[&str])] = &[
    ("test:pa", &["1.0.0", "2.0.0", "1.5.0"]),
    ("test:pb", &["0.2.0", "0.1.0"]),
    ("test:pc", &["3.1.4"]),
    ("test:pd", &["1.0.0-rc.1"]),
];
const MISSING_PACKAGE: &str = "test:zz";

fn tag_of(name: &str, version: &str) -> String {
    format!("{name}@{version}")
}

/// A valid (empty) component with a custom section carrying the tag and a padding whose size
/// depends on the release (100 B .. ~400 KB).
fn content(name: &str, version: &str, k: usize) -> Vec<u8> {
    let mut c = wasm_encoder::Component::new();
    let sizes = [100usize, 400_000, 3_000, 120_000, 40, 20_000, 250_000];
    let mut data = tag_of(name, version).into_bytes();
    data.push(0);
    data.extend(std::iter::repeat(b'x').take(sizes[k % sizes.len()]));
    c.section(&wasm_encoder::CustomSection { name: "verif-tag".into(), data: data.into() });
    c.finish()
}

fn tag_in(bytes: &[u8]) -> Option<String> {
    let needle = b"verif-tag";
    let pos = bytes.windows(needle.len()).position(|w| w == needle)?;
    let rest = &bytes[pos + needle.len()..];
    let end = rest.iter().position(|b| *b == 0)?;
    String::from_utf8(rest[..end].to_vec()).ok()
}

async fn publish(config: &warg_client::Config, name: &str, version: &str, bytes: Vec<u8>, init: bool) -> anyhow::Result<()> {
    let client = FileSystemClient::new_with_config(None, config, None).await?;
    let digest = client.content().store_content(Box::pin(futures::stream::once(async move { Ok(bytes.into()) })), None).await?;
    let mut entries = Vec::new();
    if init {
        entries.push(PublishEntry::Init);
    }
    entries.push(PublishEntry::Release { version: version.parse().unwrap(), content: digest });
    let name: PackageName = name.parse()?;
    let record_id = client
        .publish_with_info(&PrivateKey::decode(SIGNING_KEY.to_string()).unwrap(), PublishInfo { name: name.clone(), head: None, entries })
        .await?;
    client.wait_for_publish(&name, &record_id, Duration::from_millis(100)).await?;
    Ok(())
}

fn client_config(addr: &str, root: &Path) -> warg_client::Config {
    warg_client::Config {
        home_url: Some(addr.to_string()),
        registries_dir: Some(root.join("registries")),
        content_dir: Some(root.join("content")),
        namespace_map_path: Some(root.join("namespaces")),
        keyring_auth: false,
        keyring_backend: None,
        keys: Default::default(),
        ignore_federation_hints: false,
        disable_auto_accept_federation_hints: false,
        disable_auto_package_init: false,
        disable_interactive: true,
    }
}

type Key = (String, Option<String>);

/// What the registry holds for a key.
enum Expect {
    Tag(String),
    NoPackage,
    NoVersion,
    NoReleases,
}

fn expect_of(key: &Key) -> Expect {
    let Some((_, versions)) = PUBLISHED.iter().find(|(n, _)| *n == key.0) else { return Expect::NoPackage };
    match &key.1 {
        Some(v) => {
            if versions.contains(&v.as_str()) {
                Expect::Tag(tag_of(&key.0, v))
            } else {
                Expect::NoVersion
            }
        }
        None => {
            // the highest release that is not a pre-release
            let mut best: Option<Version> = None;
            for v in versions.iter() {
                let v = Version::parse(v).unwrap();
                if v.pre.is_empty() && best.as_ref().map_or(true, |b| v > *b) {
                    best = Some(v);
                }
            }
            match best {
                Some(v) => Expect::Tag(tag_of(&key.0, &v.to_string())),
                None => Expect::NoReleases,
            }
        }
    }
}

fn gen_keys(rng: &mut Rng) -> Vec<Key> {
    let faults = rng.chance(1, 4);
    let mut pool: Vec<Key> = Vec::new();
    for (n, vs) in PUBLISHED {
        if *n == "test:pd" && !faults {
            continue;
        }
        pool.push((n.to_string(), None));
        for v in vs.iter() {
            pool.push((n.to_string(), Some(v.to_string())));
        }
    }
    if faults {
        pool.push(("test:pa".into(), Some("9.9.9".into())));
        pool.push(("test:pc".into(), Some("0.0.1".into())));
        pool.push((MISSING_PACKAGE.into(), None));
        pool.push((MISSING_PACKAGE.into(), Some("1.0.0".into())));
    }
    let n = rng.range(1, 6);
    let mut keys: Vec<Key> = Vec::new();
    // half of the histories deliberately ask for one package several times
    let focus = if rng.chance(1, 2) { Some(rng.pick(&["test:pa", "test:pb"]).to_string()) } else { None };
    let mut guard = 0;
    while keys.len() < n && guard < 100 {
        guard += 1;
        let k = rng.pick(&pool).clone();
        if let Some(f) = &focus {
            if keys.len() < 2 && &k.0 != f {
                continue;
            }
        }
        if !keys.contains(&k) {
            keys.push(k);
        }
    }
    keys
}

pub fn run(ctx: &mut Ctx) {
    let threads = [1usize, 2, 4, 8][(ctx.shard as usize) % 4];
    let rt = match tokio::runtime::Builder::new_multi_thread().worker_threads(threads).enable_all().build() {
        Ok(rt) => rt,
        Err(e) => {
            ctx.note("harness_error", json!(format!("runtime: {e}")));
            return;
        }
    };
    let root = std::path::PathBuf::from(&ctx.scratch).join(format!("reg-{}", std::process::id()));
    let _ = std::fs::remove_dir_all(&root);
    std::fs::create_dir_all(&root).ok();
    rt.block_on(async {
        // ---- server + publication
        let shutdown = CancellationToken::new();
        let config = Config::new(PrivateKey::decode(OPERATOR_KEY.to_string()).unwrap(), Some(vec![("test".to_string(), NamespaceState::Defined)]), root.join("server"))
            .with_addr(([127, 0, 0, 1], 0))
            .with_shutdown(shutdown.clone().cancelled_owned())
            .with_checkpoint_interval(Duration::from_millis(100))
            .with_content_policy(WasmContentPolicy::default());
        let server = match Server::new(config).initialize().await {
            Ok(s) => s,
            Err(e) => {
                ctx.note("harness_error", json!(format!("server: {e:#}")));
                ctx.count("harness:server-failed");
                return;
            }
        };
        let addr = format!("http://{}", server.local_addr().unwrap());
        let task = tokio::spawn(async move {
            let _ = server.serve().await;
        });
        let pub_config = client_config(&addr, &root.join("publisher"));
        let mut k = 0;
        for (name, versions) in PUBLISHED {
            for (i, v) in versions.iter().enumerate() {
                if let Err(e) = publish(&pub_config, name, v, content(name, v, k), i == 0).await {
                    ctx.note("harness_error", json!(format!("publish {name}@{v}: {e:#}")));
                    ctx.count("harness:publish-failed");
                    shutdown.cancel();
                    let _ = task.await;
                    return;
                }
                k += 1;
                ctx.count("releases-published");
            }
        }
        ctx.note("worker_threads", json!(threads));

        // ---- histories
        let total = ctx.n(640, 40_000);
        for case in ctx.cases(total) {
            if ctx.out_of_budget() {
                ctx.count("budget-stop");
                break;
            }
            ctx.begin(case);
            let mut rng = ctx.rng(case);
            let keys = gen_keys(&mut rng);
            let n = keys.len();
            // delay ranks: a random permutation, 12 ms apart; one history in four runs undelayed
            let mut ranks: Vec<u64> = (0..n as u64).collect();
            for i in (1..n).rev() {
                let j = rng.below(i + 1);
                ranks.swap(i, j);
            }
            let delayed = !rng.chance(1, 4);
            let delays: Vec<u64> = if delayed { ranks.iter().map(|r| r * 12).collect() } else { vec![0; n] };
            let versions: Vec<Option<Version>> = keys.iter().map(|k| k.1.as_ref().map(|v| Version::parse(v).unwrap())).collect();
            let mut request: IndexMap<BorrowedPackageKey, SourceSpan> = IndexMap::new();
            for (i, k) in keys.iter().enumerate() {
                request.insert(BorrowedPackageKey::from_name_and_version(&k.0, versions[i].as_ref()), SourceSpan::new((i * 10 + 1).into(), i + 1));
            }
            let input = json!({"keys": keys, "delays_ms": delays, "worker_threads": threads});
            let shares_name = keys.iter().enumerate().any(|(i, a)| keys[..i].iter().any(|b| a.0 == b.0));
            // a fresh client cache for every history
            let croot = root.join(format!("client-{case}"));
            let cconf = client_config(&addr, &croot);
            let resolver = match RegistryPackageResolver::new_with_config(None, &cconf, None).await {
                Ok(r) => r,
                Err(e) => {
                    ctx.count("inconclusive:client-creation-failed");
                    ctx.note("last_client_error", json!(format!("{e:#}")));
                    continue;
                }
            };
            wac_resolver::verif::set_delays(delays.clone());
            let _ = wac_resolver::verif::take_completions();
            ctx.eval();
            let result = match tokio::time::timeout(Duration::from_secs(60), resolver.resolve(&request)).await {
                Ok(r) => r,
                Err(_) => {
                    ctx.count("inconclusive:resolve-timeout");
                    continue;
                }
            };
            let completions = wac_resolver::verif::take_completions();
            drop(resolver);
            let _ = std::fs::remove_dir_all(&croot);
            ctx.count(&format!("histories:keys={n}"));
            if shares_name {
                ctx.count("histories-with-keys-sharing-a-name");
            }
            if completions.windows(2).any(|w| w[0] > w[1]) {
                ctx.count("histories-completing-out-of-request-order");
            }
            ctx.shape_str(&format!("n={n}|shared={shares_name}|completion={completions:?}|{}", keys.iter().map(|k| format!("{}{}", &k.0[5..], if k.1.is_some() { "@v" } else { "" })).collect::<Vec<_>>().join(",")));
            // ---- oracle
            let expects: Vec<Expect> = keys.iter().map(expect_of).collect();
            let span_of = |i: usize| SourceSpan::new((i * 10 + 1).into(), i + 1);
            let any_fault = expects.iter().any(|e| !matches!(e, Expect::Tag(_)));
            match result {
                Ok(map) => {
                    ctx.count("resolve:ok");
                    if any_fault {
                        let which: Vec<&Key> = keys.iter().zip(&expects).filter(|(_, e)| !matches!(e, Expect::Tag(_))).map(|(k, _)| k).collect();
                        ctx.violation(case, "C20:missing-content-not-reported", format!("resolve returned Ok although these keys name nothing in the registry: {which:?}"), input.clone());
                        continue;
                    }
                    let mut ok = true;
                    for (i, k) in keys.iter().enumerate() {
                        let bk = BorrowedPackageKey::from_name_and_version(&k.0, versions[i].as_ref());
                        let Expect::Tag(want) = &expects[i] else { continue };
                        match map.get(&bk) {
                            None => {
                                ok = false;
                                let class = if shares_name { "keys-sharing-a-name" } else { "distinct-names" };
                                ctx.violation(case, &format!("C20:requested-key-missing-from-result:{class}"), format!("key {k:?} was requested but is not in the result (result has {} of {n} keys; completion order {completions:?})", map.len()), input.clone());
                            }
                            Some(bytes) => match tag_in(bytes) {
                                Some(got) if &got == want => ctx.count("keys-with-right-content"),
                                got => {
                                    ok = false;
                                    let class = if shares_name { "keys-sharing-a-name" } else { "distinct-names" };
                                    ctx.violation(case, &format!("C20:key-given-other-content:{class}"), format!("key {k:?} should map to the content published as {want}, got {got:?} (completion order {completions:?})"), input.clone());
                                }
                            },
                        }
                    }
                    if map.len() > n {
                        ok = false;
                        ctx.violation(case, "C20:result-has-unrequested-keys", format!("{} keys returned for {n} requested", map.len()), input.clone());
                    }
                    if ok {
                        ctx.count("histories-fully-correct");
                    }
                }
                Err(e) => {
                    ctx.count("resolve:error");
                    if !any_fault {
                        ctx.violation(case, &format!("C20:error-although-everything-exists:{}", crate::util::normalize_msg(&e.to_string())), format!("{e:?}"), input.clone());
                        continue;
                    }
                    // the error must be one the request really contains, attributed to a key that asked for it
                    let matches_key = |pred: &dyn Fn(usize) -> bool| (0..n).any(pred);
                    let fine = match &e {
                        Error::PackageDoesNotExist { name, span } => matches_key(&|i| matches!(expects[i], Expect::NoPackage) && &keys[i].0 == name && span_of(i) == *span),
                        Error::PackageVersionDoesNotExist { name, version, span } => {
                            matches_key(&|i| matches!(expects[i], Expect::NoVersion) && &keys[i].0 == name && keys[i].1.as_deref() == Some(version.to_string().as_str()) && span_of(i) == *span)
                        }
                        Error::PackageNoReleases { name, span } => matches_key(&|i| matches!(expects[i], Expect::NoReleases) && &keys[i].0 == name && span_of(i) == *span),
                        _ => false,
                    };
                    if fine {
                        ctx.count("errors-attributed-to-the-right-key");
                    } else {
                        let variant: String = format!("{e:?}").chars().take_while(|c| c.is_alphanumeric()).collect();
                        let class = if shares_name { "keys-sharing-a-name" } else { "distinct-names" };
                        ctx.violation(case, &format!("C20:error-not-attributable-to-a-requesting-key:{variant}:{class}"), format!("{e:?} does not correspond to any requested key's name, version and span"), input.clone());
                    }
                }
            }
            if ctx.samples.len() < 2 && n >= 3 {
                ctx.sample(json!({"case": case, "keys": keys, "delays_ms": delays, "completion_order": completions}));
            }
        }
        shutdown.cancel();
        let _ = task.await;
    });
    let _ = std::fs::remove_dir_all(&root);
}
