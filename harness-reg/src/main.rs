//! The C20 lane: wac-resolver's registry resolver against an in-process Warg server.
#![allow(dead_code)]

#[path = "../../harness/src/ctx.rs"]
mod ctx;
#[path = "../../harness/src/util.rs"]
mod util;
mod c20;

fn main() {
    let args: Vec<String> = std::env::args().skip(1).collect();
    util::install_panic_hook();
    let mut ctx = ctx::Ctx::from_args(&args);
    if ctx.prop != "C20" {
        eprintln!("this worker only serves C20");
        std::process::exit(2);
    }
    c20::run(&mut ctx);
    ctx.finish();
}
