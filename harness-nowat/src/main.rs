//! The C18 lane with wac-resolver's `wat` feature OFF (see /verif/harness/src/props/c18.rs).
#![allow(dead_code)]

#[path = "../../harness/src/ctx.rs"]
mod ctx;
#[path = "../../harness/src/util.rs"]
mod util;
#[path = "../../harness/src/props/c18.rs"]
mod c18;

pub const WAT_ENABLED: bool = false;

fn main() {
    let args: Vec<String> = std::env::args().skip(1).collect();
    util::install_panic_hook();
    let mut ctx = ctx::Ctx::from_args(&args);
    if ctx.prop != "C18" {
        eprintln!("this worker only serves C18");
        std::process::exit(2);
    }
    c18::run(&mut ctx);
    ctx.finish();
}
