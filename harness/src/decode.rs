//! D1 — independent section-level decoder of output component binaries.
//!
//! Built directly on `wasmparser::Parser` payloads (not on wasmparser's validator and not on
//! wac's own `Package` decoder). It replays the component-model index-space rules to give every
//! index of every sort a provenance term, so that wiring can be compared up to renumbering.

use crate::util::sha256_hex;
use anyhow::{bail, Context, Result};
use std::collections::BTreeMap;
use wasmparser::{
    ComponentAlias, ComponentExternalKind, ComponentInstance, ComponentName, ComponentType,
    ComponentTypeDeclaration, ComponentTypeRef, InstanceTypeDeclaration, Parser, Payload,
};

#[derive(Clone, Copy, Debug, PartialEq, Eq, Hash, PartialOrd, Ord)]
pub enum Sort {
    Module,
    Func,
    Value,
    Type,
    Instance,
    Component,
}

impl Sort {
    pub fn name(&self) -> &'static str {
        match self {
            Sort::Module => "module",
            Sort::Func => "func",
            Sort::Value => "value",
            Sort::Type => "type",
            Sort::Instance => "instance",
            Sort::Component => "component",
        }
    }
}

impl From<ComponentExternalKind> for Sort {
    fn from(k: ComponentExternalKind) -> Self {
        match k {
            ComponentExternalKind::Module => Sort::Module,
            ComponentExternalKind::Func => Sort::Func,
            ComponentExternalKind::Value => Sort::Value,
            ComponentExternalKind::Type => Sort::Type,
            ComponentExternalKind::Instance => Sort::Instance,
            ComponentExternalKind::Component => Sort::Component,
        }
    }
}

pub fn sort_of_ref(r: &ComponentTypeRef) -> Sort {
    match r {
        ComponentTypeRef::Module(_) => Sort::Module,
        ComponentTypeRef::Func(_) => Sort::Func,
        ComponentTypeRef::Value(_) => Sort::Value,
        ComponentTypeRef::Type(_) => Sort::Type,
        ComponentTypeRef::Instance(_) => Sort::Instance,
        ComponentTypeRef::Component(_) => Sort::Component,
    }
}

/// Provenance of an index: where the item it denotes comes from.
#[derive(Clone, Debug, PartialEq, Eq, Hash, PartialOrd, Ord)]
pub enum Term {
    /// An import of the root component, by name.
    Import(String),
    /// A nested (embedded) component, by SHA-256 of its bytes.
    Embedded(String),
    /// An instantiation of `comp` with the given named arguments.
    Inst {
        comp: Box<Term>,
        args: BTreeMap<String, (Sort, Term)>,
    },
    /// An alias of export `name` of instance `inst`.
    AliasExport(Box<Term>, String),
    /// The n-th type defined by a type section of the root (not compared structurally here).
    TypeDef(u32),
    /// Something the decoder does not model (core items, outer aliases, ...).
    Other(String),
}

impl Term {
    pub fn render(&self) -> String {
        match self {
            Term::Import(n) => format!("import({n})"),
            Term::Embedded(h) => format!("embedded({})", &h[..12]),
            Term::Inst { comp, args } => {
                let a: Vec<String> = args
                    .iter()
                    .map(|(n, (s, t))| format!("{n}:{}={}", s.name(), t.render()))
                    .collect();
                format!("inst({} with [{}])", comp.render(), a.join(", "))
            }
            Term::AliasExport(i, n) => format!("{}.{n}", i.render()),
            Term::TypeDef(i) => format!("typedef#{i}"),
            Term::Other(s) => format!("other({s})"),
        }
    }
}

#[derive(Clone, Debug)]
pub enum TypeEntry {
    Instance { exports: Vec<(String, Sort)> },
    Component { imports: Vec<(String, Sort)>, exports: Vec<(String, Sort)> },
    Func,
    Defined,
    Resource,
    Unknown,
}

#[derive(Clone, Debug)]
pub struct ImportInfo {
    pub name: String,
    pub sort: Sort,
    /// For instance imports: the names exported by the instance type; for component imports the
    /// import and export names of the component type.
    pub ty: TypeEntry,
}

#[derive(Clone, Debug, Default)]
pub struct Decoded {
    pub imports: Vec<ImportInfo>,
    pub exports: Vec<(String, Sort, Term)>,
    pub spaces: BTreeMap<Sort, Vec<Term>>,
    /// Instance indices created by `instantiate`, in order, with their terms.
    pub instantiations: Vec<Term>,
    /// SHA-256 of every nested component, in order.
    pub embedded: Vec<String>,
    pub type_entries: Vec<TypeEntry>,
    /// name section: sort -> (index, name)
    pub names: BTreeMap<Sort, Vec<(u32, String)>>,
    pub component_name: Option<String>,
    pub producers: Option<Vec<u8>>,
    pub custom_sections: Vec<String>,
}

impl Decoded {
    fn push(&mut self, sort: Sort, term: Term) -> u32 {
        let v = self.spaces.entry(sort).or_default();
        v.push(term);
        (v.len() - 1) as u32
    }

    pub fn term(&self, sort: Sort, index: u32) -> Result<&Term> {
        self.spaces
            .get(&sort)
            .and_then(|v| v.get(index as usize))
            .with_context(|| format!("{} index {index} out of range", sort.name()))
    }

    pub fn import_names(&self) -> Vec<String> {
        self.imports.iter().map(|i| i.name.clone()).collect()
    }

    pub fn export_names(&self) -> Vec<String> {
        self.exports.iter().map(|e| e.0.clone()).collect()
    }
}

fn instance_decls(decls: &[InstanceTypeDeclaration]) -> TypeEntry {
    let mut exports = Vec::new();
    for d in decls {
        if let InstanceTypeDeclaration::Export { name, ty } = d {
            exports.push((name.0.to_string(), sort_of_ref(ty)));
        }
    }
    TypeEntry::Instance { exports }
}

fn component_decls(decls: &[ComponentTypeDeclaration]) -> TypeEntry {
    let mut imports = Vec::new();
    let mut exports = Vec::new();
    for d in decls {
        match d {
            ComponentTypeDeclaration::Export { name, ty } => {
                exports.push((name.0.to_string(), sort_of_ref(ty)))
            }
            ComponentTypeDeclaration::Import(i) => {
                imports.push((i.name.0.to_string(), sort_of_ref(&i.ty)))
            }
            _ => {}
        }
    }
    TypeEntry::Component { imports, exports }
}

/// Decodes the root component of `bytes` (an output of wac: only the section kinds a
/// composition may contain are accepted).
pub fn decode(bytes: &[u8]) -> Result<Decoded> {
    decode_impl(bytes, true)
}

/// Decodes imports/exports/types of any component (e.g. one produced by wit-component);
/// index spaces that involve core items are not modelled.
pub fn decode_any(bytes: &[u8]) -> Result<Decoded> {
    decode_impl(bytes, false)
}

fn decode_impl(bytes: &[u8], strict: bool) -> Result<Decoded> {
    let mut d = Decoded::default();
    let mut depth = 0usize;
    // type index -> entry index (type index space also contains imported/aliased/exported types)
    let mut type_info: Vec<TypeEntry> = Vec::new();
    let mut typedef_count = 0u32;

    for payload in Parser::new(0).parse_all(bytes) {
        let payload = payload.context("parse payload")?;
        match &payload {
            Payload::Version { .. } => {
                depth += 1;
                continue;
            }
            Payload::End(_) => {
                depth -= 1;
                continue;
            }
            _ => {}
        }
        if depth != 1 {
            continue;
        }
        match payload {
            Payload::ComponentTypeSection(reader) => {
                for ty in reader {
                    let ty = ty?;
                    let entry = match &ty {
                        ComponentType::Defined(_) => TypeEntry::Defined,
                        ComponentType::Func(_) => TypeEntry::Func,
                        ComponentType::Component(decls) => component_decls(decls),
                        ComponentType::Instance(decls) => instance_decls(decls),
                        ComponentType::Resource { .. } => TypeEntry::Resource,
                    };
                    d.push(Sort::Type, Term::TypeDef(typedef_count));
                    typedef_count += 1;
                    type_info.push(entry.clone());
                    d.type_entries.push(entry);
                }
            }
            Payload::CoreTypeSection(reader) => {
                // core type index space is separate; module type refs point here. Not modelled.
                for t in reader {
                    t?;
                }
            }
            Payload::ComponentImportSection(reader) => {
                for imp in reader {
                    let imp = imp?;
                    let sort = sort_of_ref(&imp.ty);
                    let ty = match imp.ty {
                        ComponentTypeRef::Instance(i) | ComponentTypeRef::Component(i) => {
                            type_info.get(i as usize).cloned().unwrap_or(TypeEntry::Unknown)
                        }
                        ComponentTypeRef::Func(_) => TypeEntry::Func,
                        _ => TypeEntry::Unknown,
                    };
                    let name = imp.name.0.to_string();
                    d.push(sort, Term::Import(name.clone()));
                    if sort == Sort::Type {
                        type_info.push(TypeEntry::Unknown);
                    }
                    d.imports.push(ImportInfo { name, sort, ty });
                }
            }
            Payload::ComponentSection { unchecked_range, .. } => {
                let range = unchecked_range.clone();
                if range.end > bytes.len() {
                    bail!("nested component range out of bounds");
                }
                let h = sha256_hex(&bytes[range]);
                d.embedded.push(h.clone());
                d.push(Sort::Component, Term::Embedded(h));
            }
            Payload::ModuleSection { .. } => {
                d.push(Sort::Module, Term::Other("core module".into()));
            }
            Payload::ComponentInstanceSection(reader) => {
                for inst in reader {
                    match inst? {
                        ComponentInstance::Instantiate { component_index, args } => {
                            let comp = lookup(&d, Sort::Component, component_index, strict)?;
                            let mut m = BTreeMap::new();
                            for a in args.iter() {
                                let s: Sort = a.kind.into();
                                let t = lookup(&d, s, a.index, strict)?;
                                if m.insert(a.name.to_string(), (s, t)).is_some() {
                                    bail!("duplicate instantiation argument {}", a.name);
                                }
                            }
                            let term = Term::Inst { comp: Box::new(comp), args: m };
                            d.instantiations.push(term.clone());
                            d.push(Sort::Instance, term);
                        }
                        ComponentInstance::FromExports(_) => {
                            d.push(Sort::Instance, Term::Other("from-exports".into()));
                        }
                    }
                }
            }
            Payload::ComponentAliasSection(reader) => {
                for alias in reader {
                    match alias? {
                        ComponentAlias::InstanceExport { kind, instance_index, name } => {
                            let inst = lookup(&d, Sort::Instance, instance_index, strict)?;
                            let s: Sort = kind.into();
                            d.push(s, Term::AliasExport(Box::new(inst), name.to_string()));
                            if s == Sort::Type {
                                type_info.push(TypeEntry::Unknown);
                            }
                        }
                        ComponentAlias::CoreInstanceExport { .. } => {}
                        ComponentAlias::Outer { .. } if !strict => {}
                        ComponentAlias::Outer { .. } => bail!("outer alias at root"),
                    }
                }
            }
            Payload::ComponentExportSection(reader) => {
                for exp in reader {
                    let exp = exp?;
                    let s: Sort = exp.kind.into();
                    let t = lookup(&d, s, exp.index, strict)?;
                    d.exports.push((exp.name.0.to_string(), s, t.clone()));
                    // an export introduces a new index of the same sort denoting the same item
                    d.push(s, t);
                    if s == Sort::Type {
                        let e = type_info.get(exp.index as usize).cloned().unwrap_or(TypeEntry::Unknown);
                        type_info.push(e);
                    }
                }
            }
            Payload::CustomSection(c) => {
                d.custom_sections.push(c.name().to_string());
                match c.name() {
                    "component-name" => {
                        let reader = wasmparser::BinaryReader::new(c.data(), c.data_offset());
                        let names = wasmparser::ComponentNameSectionReader::new(reader);
                        for n in names {
                            let n = n?;
                            let (sort, map) = match n {
                                ComponentName::Component { name, .. } => {
                                    d.component_name = Some(name.to_string());
                                    continue;
                                }
                                ComponentName::Types(m) => (Sort::Type, m),
                                ComponentName::Instances(m) => (Sort::Instance, m),
                                ComponentName::Components(m) => (Sort::Component, m),
                                ComponentName::Funcs(m) => (Sort::Func, m),
                                ComponentName::Values(m) => (Sort::Value, m),
                                ComponentName::CoreModules(m) => (Sort::Module, m),
                                _ => continue,
                            };
                            for e in map {
                                let e = e?;
                                d.names.entry(sort).or_default().push((e.index, e.name.to_string()));
                            }
                        }
                    }
                    "producers" => d.producers = Some(c.data().to_vec()),
                    _ => {}
                }
            }
            Payload::ComponentCanonicalSection(reader) if !strict => {
                for c in reader {
                    match c? {
                        wasmparser::CanonicalFunction::Lift { .. } => {
                            d.push(Sort::Func, Term::Other("lift".into()));
                        }
                        _ => {}
                    }
                }
            }
            Payload::InstanceSection(_) if !strict => {}
            Payload::ComponentCanonicalSection(_)
            | Payload::InstanceSection(_)
            | Payload::ComponentStartSection { .. } => {
                bail!("unexpected section kind at the root of a composition")
            }
            _ => {}
        }
    }
    Ok(d)
}

fn lookup(d: &Decoded, sort: Sort, index: u32, strict: bool) -> Result<Term> {
    match d.term(sort, index) {
        Ok(t) => Ok(t.clone()),
        Err(e) if strict => Err(e),
        Err(_) => Ok(Term::Other(format!("{}#{index}", sort.name()))),
    }
}

/// Reference validation (V1): wasmparser's validator with all features.
pub fn validate(bytes: &[u8]) -> Result<(), String> {
    wasmparser::Validator::new_with_features(wasmparser::WasmFeatures::all())
        .validate_all(bytes)
        .map(|_| ())
        .map_err(|e| e.to_string())
}
