//! Worker context: case iteration, counters, samples, violations, checkpoints.

use crate::util::{self, Rng};
use serde_json::{json, Map, Value};
use std::collections::{BTreeMap, BTreeSet};
use std::fs::File;
use std::io::{Seek, SeekFrom, Write};
use std::time::{Duration, Instant};

#[derive(Clone, Copy, PartialEq, Eq, Debug)]
pub enum Tier {
    Quick,
    Thorough,
}

pub struct Ctx {
    pub prop: String,
    pub seed: u64,
    pub tier: Tier,
    pub shard: u64,
    pub nshards: u64,
    pub only_case: Option<u64>,
    pub from: u64,
    pub skip: BTreeSet<u64>,
    pub out: String,
    pub scratch: String,
    pub replay_input: Option<Value>,
    /// replicate mode: every worker runs every case (shard = replica id); used by C16
    pub replicate: bool,

    pub evaluations: u64,
    pub shapes: BTreeSet<u64>,
    pub counters: BTreeMap<String, u64>,
    pub samples: Vec<Value>,
    pub violations: Vec<Value>,
    pub notes: BTreeMap<String, Value>,
    pub last_case: u64,
    pub exhaustive: Option<bool>,

    cur: Option<File>,
    last_ckpt: Instant,
    start: Instant,
    pub budget: Option<Duration>,
    pub max_samples: usize,
}

impl Ctx {
    pub fn from_args(args: &[String]) -> Ctx {
        let mut prop = String::new();
        let mut seed = 1u64;
        let mut tier = Tier::Quick;
        let mut shard = 0;
        let mut nshards = 1;
        let mut only_case = None;
        let mut from = 0;
        let mut skip = BTreeSet::new();
        let mut out = String::from("/dev/null");
        let mut scratch = String::from("/verif/target/scratch");
        let mut budget = None;
        let mut replay_input = None;
        let mut replicate = false;
        let mut i = 0;
        while i < args.len() {
            let a = &args[i];
            let mut val = || {
                i += 1;
                args.get(i).cloned().unwrap_or_else(|| {
                    eprintln!("missing value for {a}");
                    std::process::exit(2)
                })
            };
            match a.as_str() {
                "--seed" => seed = val().parse().expect("seed"),
                "--tier" => {
                    tier = match val().as_str() {
                        "quick" => Tier::Quick,
                        "thorough" => Tier::Thorough,
                        t => {
                            eprintln!("bad tier {t}");
                            std::process::exit(2)
                        }
                    }
                }
                "--shard" => shard = val().parse().expect("shard"),
                "--nshards" => nshards = val().parse().expect("nshards"),
                "--case" => only_case = Some(val().parse().expect("case")),
                "--from" => from = val().parse().expect("from"),
                "--skip" => {
                    for s in val().split(',').filter(|s| !s.is_empty()) {
                        skip.insert(s.parse().expect("skip"));
                    }
                }
                "--replicate" => replicate = true,
                "--out" => out = val(),
                "--scratch" => scratch = val(),
                "--budget-s" => budget = Some(Duration::from_secs_f64(val().parse().expect("budget"))),
                "--replay-input" => {
                    let p = val();
                    let text = std::fs::read_to_string(&p).expect("read replay input");
                    replay_input = Some(serde_json::from_str(&text).expect("parse replay input"));
                }
                s if !s.starts_with("--") && prop.is_empty() => prop = s.to_string(),
                s => {
                    eprintln!("unknown argument {s}");
                    std::process::exit(2)
                }
            }
            i += 1;
        }
        let cur = if out != "/dev/null" {
            Some(File::create(format!("{out}.cur")).expect("create cur file"))
        } else {
            None
        };
        Ctx {
            prop,
            seed,
            tier,
            shard,
            nshards,
            only_case,
            from,
            skip,
            out,
            scratch,
            replay_input,
            replicate,
            evaluations: 0,
            shapes: BTreeSet::new(),
            counters: BTreeMap::new(),
            samples: Vec::new(),
            violations: Vec::new(),
            notes: BTreeMap::new(),
            last_case: 0,
            exhaustive: None,
            cur,
            last_ckpt: Instant::now(),
            start: Instant::now(),
            budget,
            max_samples: 4,
        }
    }

    pub fn quick(&self) -> bool {
        self.tier == Tier::Quick
    }

    /// Picks a size by tier.
    pub fn n(&self, quick: u64, thorough: u64) -> u64 {
        match self.tier {
            Tier::Quick => quick,
            Tier::Thorough => thorough,
        }
    }

    /// Whether case `i` belongs to this worker.
    pub fn mine(&self, i: u64) -> bool {
        if let Some(c) = self.only_case {
            return i == c;
        }
        i >= self.from && (self.replicate || i % self.nshards == self.shard) && !self.skip.contains(&i)
    }

    /// The case indices of `0..total` that this worker runs.
    pub fn cases(&self, total: u64) -> Vec<u64> {
        if let Some(c) = self.only_case {
            return if c < total { vec![c] } else { vec![] };
        }
        (self.from..total)
            .filter(|i| (self.replicate || i % self.nshards == self.shard) && !self.skip.contains(i))
            .collect()
    }

    /// True once the given fraction of the time budget is used (lets a first workload leave time
    /// for a second one).
    pub fn out_of_budget_frac(&self, f: f64) -> bool {
        match self.budget {
            Some(b) => self.only_case.is_none() && self.start.elapsed().as_secs_f64() > b.as_secs_f64() * f,
            None => false,
        }
    }

    pub fn out_of_budget(&self) -> bool {
        match self.budget {
            Some(b) => self.only_case.is_none() && self.start.elapsed() > b,
            None => false,
        }
    }

    /// Per-case deterministic PRNG (independent of sharding).
    pub fn rng(&self, case: u64) -> Rng {
        Rng::new(util::mix(util::mix(self.seed, util::hash_str(&self.prop)), case))
    }

    /// PRNG of another property's case (for debugging tools).
    pub fn rng_for(&self, prop: &str, case: u64) -> Rng {
        Rng::new(util::mix(util::mix(self.seed, util::hash_str(prop)), case))
    }

    /// Marks the beginning of a case (flushed before execution, for crash attribution).
    pub fn begin(&mut self, case: u64) {
        self.last_case = case;
        if let Some(f) = &mut self.cur {
            let _ = f.seek(SeekFrom::Start(0));
            let _ = write!(f, "{case:<20}\n");
            let _ = f.flush();
        }
        if self.last_ckpt.elapsed() > Duration::from_secs(2) {
            self.write_out(false);
            self.last_ckpt = Instant::now();
        }
    }

    /// Stores a description of the current input next to the marker (used when a worker dies).
    pub fn begin_with_input(&mut self, case: u64, input: &Value) {
        self.begin(case);
        if self.out != "/dev/null" {
            let _ = std::fs::write(format!("{}.curinput", self.out), input.to_string());
        }
    }

    pub fn count(&mut self, key: &str) {
        *self.counters.entry(key.to_string()).or_insert(0) += 1;
    }

    pub fn add(&mut self, key: &str, n: u64) {
        *self.counters.entry(key.to_string()).or_insert(0) += n;
    }

    pub fn eval(&mut self) {
        self.evaluations += 1;
    }

    /// Registers a non-trivial case by its shape hash.
    pub fn shape(&mut self, h: u64) {
        if self.shapes.len() < 60_000 {
            self.shapes.insert(h);
        }
    }

    pub fn shape_str(&mut self, s: &str) {
        self.shape(util::hash_str(s));
    }

    pub fn sample(&mut self, v: Value) {
        if self.samples.len() < self.max_samples {
            self.samples.push(v);
        }
    }

    pub fn note(&mut self, key: &str, v: Value) {
        self.notes.insert(key.to_string(), v);
    }

    /// Records a violation. `sig` is the stable signature matched against known findings.
    pub fn violation(&mut self, case: u64, sig: &str, detail: String, input: Value) {
        self.count("violations");
        // keep at most a few per signature
        let same = self
            .violations
            .iter()
            .filter(|v| v["sig"].as_str() == Some(sig))
            .count();
        *self
            .counters
            .entry(format!("violation:{sig}"))
            .or_insert(0) += 1;
        if same >= 3 {
            return;
        }
        let v = json!({
            "prop": self.prop, "seed": self.seed, "tier": if self.quick() {"quick"} else {"thorough"},
            "case": case, "sig": sig, "detail": util::clip(&detail, 4000), "input": input,
        });
        self.violations.push(v);
        self.write_out(false);
    }

    pub fn write_out(&mut self, done: bool) {
        if self.out == "/dev/null" {
            return;
        }
        let mut m = Map::new();
        m.insert("prop".into(), json!(self.prop));
        m.insert("seed".into(), json!(self.seed));
        m.insert("shard".into(), json!(self.shard));
        m.insert("nshards".into(), json!(self.nshards));
        m.insert("evaluations".into(), json!(self.evaluations));
        m.insert(
            "shapes".into(),
            Value::Array(self.shapes.iter().map(|h| json!(format!("{h:016x}"))).collect()),
        );
        m.insert("counters".into(), json!(self.counters));
        m.insert("samples".into(), Value::Array(self.samples.clone()));
        m.insert("violations".into(), Value::Array(self.violations.clone()));
        m.insert("notes".into(), json!(self.notes));
        m.insert("last_case".into(), json!(self.last_case));
        if let Some(e) = self.exhaustive {
            m.insert("exhaustive".into(), json!(e));
        }
        m.insert("done".into(), json!(done));
        m.insert("elapsed_s".into(), json!(self.start.elapsed().as_secs_f64()));
        let tmp = format!("{}.tmp", self.out);
        if std::fs::write(&tmp, Value::Object(m).to_string()).is_ok() {
            let _ = std::fs::rename(&tmp, &self.out);
        }
    }

    pub fn finish(&mut self) {
        self.write_out(true);
        if self.only_case.is_some() {
            // replay mode: print a human-readable summary
            for v in &self.violations {
                println!(
                    "REPLAY-VIOLATION sig={} detail={}",
                    v["sig"].as_str().unwrap_or(""),
                    v["detail"].as_str().unwrap_or("")
                );
            }
            if self.violations.is_empty() {
                println!("REPLAY-OK evaluations={}", self.evaluations);
            }
        }
    }
}
