//! G1 — seeded generator of WIT package models, their text, and real components built from
//! their worlds with `wit_component::dummy_module` + `ComponentEncoder`.
//!
//! The generator keeps the model so that oracles know, without asking wac, which names a
//! component imports/exports and with which signature.

use crate::util::Rng;
use anyhow::{Context, Result};
use std::fmt::Write as _;

#[derive(Clone, Debug, PartialEq, Eq, Hash)]
pub enum Ty {
    Prim(&'static str),
    /// A type name visible in the enclosing interface (local or used).
    Named(String),
    List(Box<Ty>),
    Option(Box<Ty>),
    Result(Option<Box<Ty>>, Option<Box<Ty>>),
    Tuple(Vec<Ty>),
    Borrow(String),
}

#[derive(Clone, Debug, PartialEq, Eq, Hash)]
pub struct Func {
    pub name: String,
    pub params: Vec<(String, Ty)>,
    pub result: Option<Ty>,
}

#[derive(Clone, Debug, PartialEq, Eq, Hash)]
pub enum TypeDef {
    Record(Vec<(String, Ty)>),
    Variant(Vec<(String, Option<Ty>)>),
    Enum(Vec<String>),
    Flags(Vec<String>),
    Alias(Ty),
    Resource {
        ctor: Option<Vec<(String, Ty)>>,
        methods: Vec<Func>,
        statics: Vec<Func>,
    },
}

#[derive(Clone, Debug, PartialEq, Eq, Hash)]
pub struct Use {
    /// Interface reference as written: `i0` (same package) or `ns:pkg/i0@1.0.0`.
    pub path: String,
    /// Fully qualified id of the source interface.
    pub source_id: String,
    pub name: String,
    pub as_name: Option<String>,
    /// Whether the used type is a resource.
    pub is_resource: bool,
}

#[derive(Clone, Debug, PartialEq, Eq, Hash)]
pub struct Iface {
    pub name: String,
    pub uses: Vec<Use>,
    pub types: Vec<(String, TypeDef)>,
    pub funcs: Vec<Func>,
}

#[derive(Clone, Debug)]
pub struct Pkg {
    pub ns: String,
    pub name: String,
    pub version: Option<String>,
    pub ifaces: Vec<Iface>,
}

impl Pkg {
    pub fn id(&self) -> String {
        match &self.version {
            Some(v) => format!("{}:{}@{}", self.ns, self.name, v),
            None => format!("{}:{}", self.ns, self.name),
        }
    }
    pub fn iface_id(&self, iface: &str) -> String {
        match &self.version {
            Some(v) => format!("{}:{}/{}@{}", self.ns, self.name, iface, v),
            None => format!("{}:{}/{}", self.ns, self.name, iface),
        }
    }
}

pub const PRIMS: [&str; 13] = [
    "u8", "s8", "u16", "s16", "u32", "s32", "u64", "s64", "f32", "f64", "char", "bool", "string",
];

pub struct Names {
    n: usize,
}
impl Names {
    pub fn new() -> Self {
        Names { n: 0 }
    }
    pub fn fresh(&mut self, prefix: &str) -> String {
        self.n += 1;
        format!("{prefix}{}", self.n)
    }
}

/// Knobs for interface generation.
#[derive(Clone, Debug)]
pub struct IfaceOpts {
    pub max_types: usize,
    pub max_funcs: usize,
    pub resources: bool,
    pub depth: usize,
    /// Do not generate `type a = b` where `b` is a `use`d type (recorded finding: wac's
    /// imported-dependency component type re-encodes such an alias structurally and panics
    /// when the definition mentions a resource that is not in scope).
    pub avoid_alias_of_used: bool,
    /// Draw type names from a small pool, so that different interfaces define types of the
    /// same name and `use` has to rename them.
    pub reuse_names: bool,
}

impl Default for IfaceOpts {
    fn default() -> Self {
        IfaceOpts { max_types: 4, max_funcs: 3, resources: true, depth: 2, avoid_alias_of_used: false, reuse_names: false }
    }
}

/// What an interface under construction can refer to.
#[derive(Clone, Default)]
struct Scope {
    /// value types (non-resource) by name
    values: Vec<String>,
    /// resource types by name
    resources: Vec<String>,
}

fn gen_ty(rng: &mut Rng, scope: &Scope, depth: usize, allow_borrow: bool) -> Ty {
    let pick = rng.below(if depth == 0 { 4 } else { 10 });
    match pick {
        0 | 1 => Ty::Prim(PRIMS[rng.below(PRIMS.len())]),
        2 | 3 => {
            let nv = scope.values.len();
            let nr = scope.resources.len();
            if nv + nr == 0 {
                Ty::Prim(PRIMS[rng.below(PRIMS.len())])
            } else {
                let i = rng.below(nv + nr);
                if i < nv {
                    Ty::Named(scope.values[i].clone())
                } else if allow_borrow && rng.chance(1, 2) {
                    Ty::Borrow(scope.resources[i - nv].clone())
                } else {
                    Ty::Named(scope.resources[i - nv].clone())
                }
            }
        }
        4 => Ty::List(Box::new(gen_ty(rng, scope, depth - 1, allow_borrow))),
        5 => Ty::Option(Box::new(gen_ty(rng, scope, depth - 1, allow_borrow))),
        6 | 7 => {
            let ok = if rng.chance(2, 3) {
                Some(Box::new(gen_ty(rng, scope, depth - 1, allow_borrow)))
            } else {
                None
            };
            let err = if rng.chance(1, 2) {
                Some(Box::new(gen_ty(rng, scope, depth - 1, allow_borrow)))
            } else {
                None
            };
            Ty::Result(ok, err)
        }
        _ => {
            let n = rng.range(1, 3);
            Ty::Tuple((0..n).map(|_| gen_ty(rng, scope, depth - 1, allow_borrow)).collect())
        }
    }
}

fn gen_func(rng: &mut Rng, scope: &Scope, name: String, depth: usize, names: &mut Names) -> Func {
    let np = rng.below(4);
    let params = (0..np)
        .map(|_| (names.fresh("p"), gen_ty(rng, scope, depth, true)))
        .collect();
    let result = if rng.chance(2, 3) {
        Some(gen_ty(rng, scope, depth, false))
    } else {
        None
    };
    Func { name, params, result }
}

fn gen_typedef(rng: &mut Rng, scope: &Scope, opts: &IfaceOpts, names: &mut Names) -> TypeDef {
    let k = rng.below(if opts.resources { 7 } else { 5 });
    let d = opts.depth.saturating_sub(1);
    match k {
        0 => {
            let n = rng.range(1, 4);
            TypeDef::Record((0..n).map(|_| (names.fresh("fld"), gen_ty(rng, scope, d, false))).collect())
        }
        1 => {
            let n = rng.range(1, 4);
            TypeDef::Variant(
                (0..n)
                    .map(|_| {
                        (
                            names.fresh("case"),
                            if rng.chance(1, 2) { Some(gen_ty(rng, scope, d, false)) } else { None },
                        )
                    })
                    .collect(),
            )
        }
        2 => TypeDef::Enum((0..rng.range(1, 4)).map(|_| names.fresh("en")).collect()),
        3 => TypeDef::Flags((0..rng.range(1, 4)).map(|_| names.fresh("fl")).collect()),
        4 => TypeDef::Alias(gen_ty(rng, scope, opts.depth, false)),
        _ => {
            let ctor = if rng.chance(1, 2) {
                let np = rng.below(3);
                Some((0..np).map(|_| (names.fresh("p"), gen_ty(rng, scope, d, true))).collect())
            } else {
                None
            };
            let methods = (0..rng.below(3))
                .map(|_| {
                    let n = names.fresh("m");
                    gen_func(rng, scope, n, d, names)
                })
                .collect();
            let statics = (0..rng.below(2))
                .map(|_| {
                    let n = names.fresh("st");
                    gen_func(rng, scope, n, d, names)
                })
                .collect();
            TypeDef::Resource { ctor, methods, statics }
        }
    }
}

/// Generates one interface; `usable` lists (path, source id, type name, is_resource) it may `use`.
pub fn gen_iface(
    rng: &mut Rng,
    name: String,
    usable: &[(String, String, String, bool)],
    opts: &IfaceOpts,
    names: &mut Names,
) -> Iface {
    let mut scope = Scope::default();
    let mut uses = Vec::new();
    if !usable.is_empty() {
        let n = rng.below(3.min(usable.len() + 1));
        let mut taken: Vec<usize> = Vec::new();
        for _ in 0..n {
            let i = rng.below(usable.len());
            if taken.contains(&i) {
                continue;
            }
            // a type name may only be brought in once under a given local name
            let (path, source_id, tname, is_res) = usable[i].clone();
            let mut as_name = if rng.chance(1, 3) { Some(names.fresh("ren")) } else { None };
            let mut local = as_name.clone().unwrap_or_else(|| tname.clone());
            if scope.values.contains(&local) || scope.resources.contains(&local) {
                if !opts.reuse_names {
                    continue;
                }
                local = names.fresh("ren");
                as_name = Some(local.clone());
            }
            taken.push(i);
            if is_res {
                scope.resources.push(local);
            } else {
                scope.values.push(local);
            }
            uses.push(Use { path, source_id, name: tname, as_name, is_resource: is_res });
        }
    }
    let mut types = Vec::new();
    for _ in 0..rng.below(opts.max_types + 1) {
        let mut def = gen_typedef(rng, &scope, opts, names);
        if opts.avoid_alias_of_used {
            if let TypeDef::Alias(Ty::Named(n)) = &def {
                if uses.iter().any(|u: &Use| u.as_name.as_ref().unwrap_or(&u.name) == n) {
                    def = TypeDef::Alias(Ty::Prim(PRIMS[rng.below(PRIMS.len())]));
                }
            }
        }
        let prefix = match def {
            TypeDef::Record(_) => "rec",
            TypeDef::Variant(_) => "var",
            TypeDef::Enum(_) => "enm",
            TypeDef::Flags(_) => "flg",
            TypeDef::Alias(_) => "ali",
            TypeDef::Resource { .. } => "res",
        };
        let pooled = if opts.reuse_names {
            let start = rng.below(3);
            (0..3).map(|k| format!("{prefix}-p{}", (start + k) % 3)).find(|n| !scope.values.contains(n) && !scope.resources.contains(n))
        } else {
            None
        };
        let tname = pooled.unwrap_or_else(|| names.fresh(prefix));
        if matches!(def, TypeDef::Resource { .. }) {
            scope.resources.push(tname.clone());
        } else {
            scope.values.push(tname.clone());
        }
        types.push((tname, def));
    }
    let nf = rng.range(if types.is_empty() && uses.is_empty() { 1 } else { 0 }, opts.max_funcs);
    let funcs = (0..nf)
        .map(|_| {
            let n = names.fresh("fn");
            gen_func(rng, &scope, n, opts.depth, names)
        })
        .collect();
    Iface { name, uses, types, funcs }
}

// ---------------------------------------------------------------------------------------------
// printing

pub fn ty_str(t: &Ty) -> String {
    match t {
        Ty::Prim(p) => p.to_string(),
        Ty::Named(n) => n.clone(),
        Ty::List(t) => format!("list<{}>", ty_str(t)),
        Ty::Option(t) => format!("option<{}>", ty_str(t)),
        Ty::Result(None, None) => "result".to_string(),
        Ty::Result(Some(o), None) => format!("result<{}>", ty_str(o)),
        Ty::Result(None, Some(e)) => format!("result<_, {}>", ty_str(e)),
        Ty::Result(Some(o), Some(e)) => format!("result<{}, {}>", ty_str(o), ty_str(e)),
        Ty::Tuple(ts) => format!("tuple<{}>", ts.iter().map(ty_str).collect::<Vec<_>>().join(", ")),
        Ty::Borrow(r) => format!("borrow<{r}>"),
    }
}

pub fn params_str(ps: &[(String, Ty)]) -> String {
    ps.iter().map(|(n, t)| format!("{n}: {}", ty_str(t))).collect::<Vec<_>>().join(", ")
}

pub fn func_sig(f: &Func) -> String {
    match &f.result {
        Some(r) => format!("func({}) -> {}", params_str(&f.params), ty_str(r)),
        None => format!("func({})", params_str(&f.params)),
    }
}

pub fn print_iface_body(out: &mut String, i: &Iface, indent: &str) {
    for u in &i.uses {
        match &u.as_name {
            Some(a) => writeln!(out, "{indent}use {}.{{{} as {}}};", u.path, u.name, a).unwrap(),
            None => writeln!(out, "{indent}use {}.{{{}}};", u.path, u.name).unwrap(),
        }
    }
    for (name, def) in &i.types {
        match def {
            TypeDef::Record(fs) => {
                writeln!(out, "{indent}record {name} {{").unwrap();
                for (n, t) in fs {
                    writeln!(out, "{indent}    {n}: {},", ty_str(t)).unwrap();
                }
                writeln!(out, "{indent}}}").unwrap();
            }
            TypeDef::Variant(cs) => {
                writeln!(out, "{indent}variant {name} {{").unwrap();
                for (n, t) in cs {
                    match t {
                        Some(t) => writeln!(out, "{indent}    {n}({}),", ty_str(t)).unwrap(),
                        None => writeln!(out, "{indent}    {n},").unwrap(),
                    }
                }
                writeln!(out, "{indent}}}").unwrap();
            }
            TypeDef::Enum(cs) => {
                writeln!(out, "{indent}enum {name} {{ {} }}", cs.join(", ")).unwrap();
            }
            TypeDef::Flags(cs) => {
                writeln!(out, "{indent}flags {name} {{ {} }}", cs.join(", ")).unwrap();
            }
            TypeDef::Alias(t) => writeln!(out, "{indent}type {name} = {};", ty_str(t)).unwrap(),
            TypeDef::Resource { ctor, methods, statics } => {
                if ctor.is_none() && methods.is_empty() && statics.is_empty() {
                    writeln!(out, "{indent}resource {name};").unwrap();
                } else {
                    writeln!(out, "{indent}resource {name} {{").unwrap();
                    if let Some(ps) = ctor {
                        writeln!(out, "{indent}    constructor({});", params_str(ps)).unwrap();
                    }
                    for m in methods {
                        writeln!(out, "{indent}    {}: {};", m.name, func_sig(m)).unwrap();
                    }
                    for s in statics {
                        writeln!(out, "{indent}    {}: static {};", s.name, func_sig(s)).unwrap();
                    }
                    writeln!(out, "{indent}}}").unwrap();
                }
            }
        }
    }
    for f in &i.funcs {
        writeln!(out, "{indent}{}: {};", f.name, func_sig(f)).unwrap();
    }
}

pub fn print_pkg(p: &Pkg) -> String {
    let mut out = String::new();
    writeln!(out, "package {};", p.id()).unwrap();
    for i in &p.ifaces {
        writeln!(out, "\ninterface {} {{", i.name).unwrap();
        print_iface_body(&mut out, i, "    ");
        writeln!(out, "}}").unwrap();
    }
    out
}

// ---------------------------------------------------------------------------------------------
// worlds and components

#[derive(Clone, Debug, PartialEq, Eq)]
pub enum WorldItem {
    /// `import ns:pkg/iface@v;`
    Iface { id: String },
    /// `import name: func(...)`
    Func { name: String, func: Func },
    /// `import name: interface { ... }`
    Inline { name: String, iface: Iface },
}

impl WorldItem {
    pub fn extern_name(&self) -> &str {
        match self {
            WorldItem::Iface { id } => id,
            WorldItem::Func { name, .. } => name,
            WorldItem::Inline { name, .. } => name,
        }
    }
    pub fn is_instance(&self) -> bool {
        !matches!(self, WorldItem::Func { .. })
    }
}

#[derive(Clone, Debug)]
pub struct WorldModel {
    /// Package that holds the world, e.g. `test:c0`.
    pub pkg: String,
    pub world: String,
    pub imports: Vec<WorldItem>,
    pub exports: Vec<WorldItem>,
}

pub fn print_world_pkg(w: &WorldModel) -> String {
    let mut out = String::new();
    writeln!(out, "package {};\n", w.pkg).unwrap();
    writeln!(out, "world {} {{", w.world).unwrap();
    for (dir, items) in [("import", &w.imports), ("export", &w.exports)] {
        for it in items {
            match it {
                WorldItem::Iface { id } => writeln!(out, "    {dir} {id};").unwrap(),
                WorldItem::Func { name, func } => {
                    writeln!(out, "    {dir} {name}: {};", func_sig(func)).unwrap()
                }
                WorldItem::Inline { name, iface } => {
                    writeln!(out, "    {dir} {name}: interface {{").unwrap();
                    print_iface_body(&mut out, iface, "        ");
                    writeln!(out, "    }}").unwrap();
                }
            }
        }
    }
    writeln!(out, "}}").unwrap();
    out
}

/// Parses library packages (in dependency order) and a world package, returns the component.
pub fn build_component(lib_texts: &[(String, String)], world_text: &str, world: &str) -> Result<Vec<u8>> {
    let mut resolve = wit_parser::Resolve::default();
    for (name, text) in lib_texts {
        resolve
            .push_str(format!("{name}.wit"), text)
            .with_context(|| format!("generated library package {name} does not parse:\n{text}"))?;
    }
    let pkg = resolve
        .push_str("world.wit", world_text)
        .with_context(|| format!("generated world package does not parse:\n{world_text}"))?;
    let world_id = resolve
        .select_world(&[pkg], Some(world))
        .context("select world")?;
    let mut module = wit_component::dummy_module(
        &resolve,
        world_id,
        wit_parser::ManglingAndAbi::Legacy(wit_parser::LiftLowerAbi::Sync),
    );
    wit_component::embed_component_metadata(
        &mut module,
        &resolve,
        world_id,
        wit_component::StringEncoding::default(),
    )
    .context("embed metadata")?;
    let mut encoder = wit_component::ComponentEncoder::default()
        .validate(true)
        .module(&module)
        .context("module")?;
    encoder.encode().context("encode component")
}

/// Encodes a WIT package (interfaces/worlds only) the way `wit_component::encode` does.
pub fn encode_wit_package(lib_texts: &[(String, String)], text: &str) -> Result<Vec<u8>> {
    let mut resolve = wit_parser::Resolve::default();
    for (name, t) in lib_texts {
        resolve.push_str(format!("{name}.wit"), t).with_context(|| format!("dep {name}"))?;
    }
    let pkg = resolve.push_str("pkg.wit", text).context("parse wit package")?;
    wit_component::encode(&resolve, pkg).context("wit_component::encode")
}

// ---------------------------------------------------------------------------------------------
// libraries: a few library packages + component worlds over them

#[derive(Clone, Debug)]
pub struct CompModel {
    /// wac package name used to register the component, e.g. `test:c0`.
    pub name: String,
    pub version: Option<String>,
    pub world: WorldModel,
    pub bytes: Vec<u8>,
    /// The component binary read by the independent decoder D1 (imports with the export names of
    /// their instance types, exports).
    pub decoded: crate::decode::Decoded,
}

#[derive(Clone, Debug)]
pub struct Library {
    pub pkgs: Vec<Pkg>,
    pub pkg_texts: Vec<(String, String)>,
    pub comps: Vec<CompModel>,
}

#[derive(Clone, Debug)]
pub struct LibOpts {
    pub n_ifaces: usize,
    pub n_comps: usize,
    pub versions: bool,
    pub iface: IfaceOpts,
    pub plain_funcs: bool,
    pub inline_ifaces: bool,
    /// a plain function import may be repeated under a second name (`<name>-twin`, same
    /// signature), so that one node can be passed as two arguments of one instantiation
    pub twin_funcs: bool,
}

impl Default for LibOpts {
    fn default() -> Self {
        LibOpts {
            n_ifaces: 4,
            n_comps: 4,
            versions: true,
            iface: IfaceOpts::default(),
            plain_funcs: true,
            inline_ifaces: true,
            twin_funcs: false,
        }
    }
}

/// All (path, source id, type name, is_resource) entries of the given interfaces of a package,
/// as seen from inside the same package (`same_pkg`) or from another package.
fn usable_of(p: &Pkg, upto: usize, same_pkg: bool) -> Vec<(String, String, String, bool)> {
    let mut v = Vec::new();
    for i in &p.ifaces[..upto] {
        let path = if same_pkg { i.name.clone() } else { p.iface_id(&i.name) };
        for (tname, def) in &i.types {
            // `type a = b` (an alias of a named type) is never offered for `use` by another
            // interface: recorded finding, wac's component type for an imported dependency
            // re-encodes such a used alias structurally (invalid instance type or panic)
            v.push((path.clone(), p.iface_id(&i.name), tname.clone(), matches!(def, TypeDef::Resource { .. })));
        }
        // a type the interface itself `use`s can be used from it in turn: chains of `use` several
        // levels deep (a uses b.{t}, b uses c.{t}, ...)
        for u in &i.uses {
            let local = u.as_name.clone().unwrap_or_else(|| u.name.clone());
            v.push((path.clone(), p.iface_id(&i.name), local, u.is_resource));
        }
    }
    v
}

/// The set of interface ids an interface (transitively) `use`s.
pub fn use_closure(pkgs: &[Pkg], id: &str) -> Vec<String> {
    let mut out: Vec<String> = Vec::new();
    let mut stack = vec![id.to_string()];
    while let Some(cur) = stack.pop() {
        for p in pkgs {
            for i in &p.ifaces {
                if p.iface_id(&i.name) == cur {
                    for u in &i.uses {
                        if !out.contains(&u.source_id) {
                            out.push(u.source_id.clone());
                            stack.push(u.source_id.clone());
                        }
                    }
                }
            }
        }
    }
    out
}

pub fn find_iface<'a>(pkgs: &'a [Pkg], id: &str) -> Option<&'a Iface> {
    for p in pkgs {
        for i in &p.ifaces {
            if p.iface_id(&i.name) == id {
                return Some(i);
            }
        }
    }
    None
}

/// Generates library packages. With `versions`, a second package on the same semver track is
/// derived from the first (each interface keeps its items and may gain functions), plus
/// optionally one on a different track.
pub fn gen_pkgs(rng: &mut Rng, opts: &LibOpts, names: &mut Names) -> Vec<Pkg> {
    // one library in three draws its type names from a small pool, so that different interfaces
    // define types (and resources) of the same name and `use` has to rename them
    let mut opts = opts.clone();
    if !opts.iface.reuse_names && rng.chance(1, 3) {
        opts.iface.reuse_names = true;
    }
    let opts = &opts;
    let mut pkgs = Vec::new();
    let versioned = opts.versions && rng.chance(2, 3);
    let base_version = if versioned {
        Some(rng.pick(&["1.0.0", "0.2.0", "1.2.3", "2.0.1", "1.9.0", "0.2.9"]).to_string())
    } else {
        None
    };
    let mut base = Pkg { ns: "ns".into(), name: "lib".into(), version: base_version.clone(), ifaces: vec![] };
    for k in 0..opts.n_ifaces.max(1) {
        let usable = usable_of(&base, k, true);
        let iface = gen_iface(rng, format!("i{k}"), &usable, &opts.iface, names);
        base.ifaces.push(iface);
    }
    pkgs.push(base.clone());
    if let Some(v) = &base_version {
        if rng.chance(3, 4) {
            // compatible later version: same items, sometimes more functions
            let later = match v.as_str() {
                "1.0.0" => "1.1.0",
                "0.2.0" => "0.2.4",
                "1.2.3" => "1.3.0",
                // a component gains a digit: version order differs from the order of the names
                "1.9.0" => "1.10.0",
                "0.2.9" => "0.2.10",
                _ => "2.1.0",
            };
            let mut p2 = base.clone();
            p2.version = Some(later.to_string());
            for i in &mut p2.ifaces {
                let v1 = v.clone();
                for u in &mut i.uses {
                    u.source_id = u.source_id.replace(&format!("@{v1}"), &format!("@{later}"));
                }
                if rng.chance(1, 2) {
                    let scope = Scope {
                        values: i
                            .types
                            .iter()
                            .filter(|(_, d)| !matches!(d, TypeDef::Resource { .. }))
                            .map(|(n, _)| n.clone())
                            .collect(),
                        resources: vec![],
                    };
                    let n = names.fresh("extra");
                    i.funcs.push(gen_func(rng, &scope, n, 1, names));
                }
            }
            // sometimes a third release on the same track: chains of three compatible versions
            let third = if rng.chance(1, 3) {
                let later2 = match later {
                    "1.1.0" => "1.2.0",
                    "0.2.4" => "0.2.7",
                    "1.3.0" => "1.4.1",
                    "1.10.0" => "1.11.0",
                    "0.2.10" => "0.2.11",
                    _ => "2.2.0",
                };
                let mut p3 = p2.clone();
                p3.version = Some(later2.to_string());
                for i in &mut p3.ifaces {
                    for u in &mut i.uses {
                        u.source_id = u.source_id.replace(&format!("@{later}"), &format!("@{later2}"));
                    }
                }
                Some(p3)
            } else {
                None
            };
            pkgs.push(p2);
            if let Some(p3) = third {
                pkgs.push(p3);
            }
        }
        if rng.chance(1, 3) {
            // a different track with its own content
            // half of the time a track whose key begins with the digits of the base track's key
            // (1 / 10, 0.2 / 0.21): different tracks although one name is a prefix of the other
            let prefix_related = rng.chance(1, 2);
            let other = match v.as_str() {
                "1.0.0" | "1.2.3" | "1.9.0" => if prefix_related { "10.0.0" } else { "2.0.0" },
                "0.2.0" | "0.2.9" => if prefix_related { "0.21.0" } else { "0.3.0" },
                _ => if prefix_related { "20.1.0" } else { "3.0.0" },
            };
            let mut p3 = Pkg { ns: "ns".into(), name: "lib".into(), version: Some(other.into()), ifaces: vec![] };
            for k in 0..opts.n_ifaces.max(1).min(2) {
                let usable = usable_of(&p3, k, true);
                let iface = gen_iface(rng, format!("i{k}"), &usable, &opts.iface, names);
                p3.ifaces.push(iface);
            }
            pkgs.push(p3);
        }
    }
    // a second, independent package that may `use` types across packages
    if rng.chance(1, 2) {
        let mut other = Pkg { ns: "ns".into(), name: "other".into(), version: None, ifaces: vec![] };
        let foreign = usable_of(&pkgs[0], pkgs[0].ifaces.len(), false);
        for k in 0..rng.range(1, 2) {
            let mut usable = usable_of(&other, k, true);
            usable.extend(foreign.iter().cloned());
            let iface = gen_iface(rng, format!("o{k}"), &usable, &opts.iface, names);
            other.ifaces.push(iface);
        }
        pkgs.push(other);
    }
    pkgs
}

fn all_iface_ids(pkgs: &[Pkg]) -> Vec<String> {
    pkgs.iter().flat_map(|p| p.ifaces.iter().map(move |i| p.iface_id(&i.name))).collect()
}

pub fn gen_world(rng: &mut Rng, pkgs: &[Pkg], pkg_name: &str, opts: &LibOpts, names: &mut Names, fn_pool: &[Func]) -> WorldModel {
    let ids = all_iface_ids(pkgs);
    let mut imports: Vec<WorldItem> = Vec::new();
    let mut exports: Vec<WorldItem> = Vec::new();
    let ni = rng.below(4);
    for _ in 0..ni {
        let id = rng.pick(&ids).clone();
        if !imports.iter().any(|w| w.extern_name() == id) {
            imports.push(WorldItem::Iface { id });
        }
    }
    let ne = rng.range(if ni == 0 { 1 } else { 0 }, 3);
    for _ in 0..ne {
        let id = rng.pick(&ids).clone();
        if !exports.iter().any(|w| w.extern_name() == id) && !imports.iter().any(|w| w.extern_name() == id) {
            exports.push(WorldItem::Iface { id });
        }
    }
    if opts.plain_funcs && !fn_pool.is_empty() {
        for _ in 0..rng.below(3) {
            let f = rng.pick(fn_pool).clone();
            if !imports.iter().any(|w| w.extern_name() == f.name) && !exports.iter().any(|w| w.extern_name() == f.name) {
                imports.push(WorldItem::Func { name: f.name.clone(), func: f });
            }
        }
        if opts.twin_funcs {
            let twins: Vec<Func> = imports.iter().filter_map(|w| match w { WorldItem::Func { func, .. } => Some(func.clone()), _ => None }).collect();
            for mut f in twins {
                if rng.chance(1, 2) {
                    f.name = format!("{}-twin", f.name);
                    imports.push(WorldItem::Func { name: f.name.clone(), func: f });
                }
            }
        }
        for _ in 0..rng.below(3) {
            let f = rng.pick(fn_pool).clone();
            if !imports.iter().any(|w| w.extern_name() == f.name) && !exports.iter().any(|w| w.extern_name() == f.name) {
                exports.push(WorldItem::Func { name: f.name.clone(), func: f });
            }
        }
    }
    if opts.inline_ifaces && rng.chance(1, 4) {
        let mut o = opts.iface.clone();
        o.max_types = 2;
        let name = names.fresh("inl");
        let iface = gen_iface(rng, name.clone(), &[], &o, names);
        if rng.chance(1, 2) {
            imports.push(WorldItem::Inline { name, iface });
        } else {
            exports.push(WorldItem::Inline { name, iface });
        }
    }
    if imports.is_empty() && exports.is_empty() {
        exports.push(WorldItem::Iface { id: ids[0].clone() });
    }
    WorldModel { pkg: pkg_name.to_string(), world: "w".into(), imports, exports }
}

pub fn gen_library(rng: &mut Rng, opts: &LibOpts) -> Result<Library> {
    let mut names = Names::new();
    let pkgs = gen_pkgs(rng, opts, &mut names);
    let pkg_texts: Vec<(String, String)> = pkgs
        .iter()
        .enumerate()
        .map(|(i, p)| (format!("lib{i}"), print_pkg(p)))
        .collect();
    // pool of plain functions (primitive-only signatures) shared between components, so that
    // one component's export can be another's import
    let empty = Scope::default();
    let fn_pool: Vec<Func> = (0..3)
        .map(|_| {
            let n = names.fresh("pf");
            gen_func(rng, &empty, n, 1, &mut names)
        })
        .collect();
    let mut comps = Vec::new();
    for k in 0..opts.n_comps {
        let pkg_name = format!("test:c{k}");
        // some world shapes are rejected by wit-parser (e.g. exporting both an interface and
        // one that uses it in incompatible ways); draw again in that case
        let mut built = None;
        let mut last_err = None;
        for _ in 0..12 {
            let world = gen_world(rng, &pkgs, &pkg_name, opts, &mut names, &fn_pool);
            let text = print_world_pkg(&world);
            // wit-component itself panics on a few world shapes; that is not wac's problem
            let r = crate::util::catch(|| build_component(&pkg_texts, &text, "w"))
                .unwrap_or_else(|p| Err(anyhow::anyhow!("wit-component panicked: {p}")));
            match r {
                Ok(bytes) => {
                    built = Some((world, bytes));
                    break;
                }
                Err(e) => {
                    last_err = Some(e);
                }
            }
        }
        let Some((world, bytes)) = built else {
            return Err(last_err.unwrap());
        };
        let version = if rng.chance(1, 4) { Some(rng.pick(&["1.0.0", "0.3.1", "2.1.0-rc.1"]).to_string()) } else { None };
        let decoded = crate::decode::decode_any(&bytes)?;
        comps.push(CompModel { name: pkg_name, version, world, bytes, decoded });
    }
    Ok(Library { pkgs, pkg_texts, comps })
}

pub fn library_text(lib: &Library) -> String {
    let mut s = String::new();
    for (_, t) in &lib.pkg_texts {
        s.push_str(t);
        s.push_str("\n// ----\n");
    }
    for c in &lib.comps {
        s.push_str(&print_world_pkg(&c.world));
        s.push_str("\n// ----\n");
    }
    s
}
