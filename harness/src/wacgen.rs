//! G4 (syntactic part) — generator of WAC documents from the documented grammar, with the
//! expected syntax tree; M4 — an independent tokenizer-free recogniser over token lists written
//! from the EBNF of LANGUAGE.md; layout randomisation; token-level mutation.

use crate::util::Rng;
use serde_json::{json, Value};

#[derive(Clone, Debug, PartialEq, Eq)]
pub enum K {
    Ident,
    Str,
    PkgName,
    PkgPath,
    Kw,
    Sym,
    /// a `///` doc comment line (layout, but meaningful for the tree)
    Doc,
}

#[derive(Clone, Debug, PartialEq, Eq)]
pub struct Tok {
    pub k: K,
    pub text: String,
}

pub fn kw(s: &str) -> Tok {
    Tok { k: K::Kw, text: s.to_string() }
}
pub fn sym(s: &str) -> Tok {
    Tok { k: K::Sym, text: s.to_string() }
}

pub const KEYWORDS: [&str; 39] = [
    "import", "with", "type", "tuple", "list", "option", "result", "borrow", "resource", "variant", "record",
    "flags", "enum", "func", "static", "constructor", "u8", "s8", "u16", "s16", "u32", "s32", "u64", "s64", "f32",
    "f64", "char", "bool", "string", "interface", "world", "export", "new", "let", "use", "include", "as",
    "package", "targets",
];
pub const PRIM_TYPES: [&str; 13] =
    ["u8", "s8", "u16", "s16", "u32", "s32", "u64", "s64", "f32", "f64", "char", "bool", "string"];
pub const SYMBOLS: [&str; 18] =
    [";", "{", "}", ":", "=", "(", ")", "->", "<", ">", "_", "[", "]", ".", "...", ",", "/", "@"];

pub fn is_keyword(s: &str) -> bool {
    KEYWORDS.contains(&s)
}

pub const SPAN: &str = "<span>";

pub struct Gen<'r> {
    pub rng: &'r mut Rng,
    pub toks: Vec<Tok>,
    pub depth: usize,
    /// production name -> times generated
    pub productions: std::collections::BTreeMap<&'static str, u64>,
}

fn words() -> &'static [&'static str] {
    &["a", "b", "c", "foo", "bar", "baz", "qux", "x1", "y2z", "item", "thing", "stream", "handler", "run", "get"]
}

impl<'r> Gen<'r> {
    pub fn new(rng: &'r mut Rng) -> Self {
        Gen { rng, toks: vec![], depth: 0, productions: Default::default() }
    }

    fn p(&mut self, name: &'static str) {
        *self.productions.entry(name).or_insert(0) += 1;
    }

    fn push(&mut self, t: Tok) {
        self.toks.push(t);
    }
    fn kw(&mut self, s: &str) {
        self.toks.push(kw(s));
    }
    fn sym(&mut self, s: &str) {
        self.toks.push(sym(s));
    }

    /// A raw identifier spelling (without `%`), possibly kebab-case, possibly with upper-case words.
    fn raw_id(&mut self) -> String {
        let n = if self.rng.chance(1, 4) { 2 } else { 1 };
        let mut parts = Vec::new();
        for _ in 0..n {
            let w = *self.rng.pick(words());
            if self.rng.chance(1, 12) {
                parts.push(w.to_uppercase());
            } else {
                parts.push(w.to_string());
            }
        }
        parts.join("-")
    }

    /// Emits an identifier token; returns the expected `Ident` JSON.
    pub fn ident(&mut self) -> Value {
        self.p("id");
        if self.rng.chance(1, 10) {
            // %-escaped keyword
            let k = *self.rng.pick(&KEYWORDS);
            self.push(Tok { k: K::Ident, text: format!("%{k}") });
            self.p("id-escaped");
            return json!({"string": k, "span": SPAN});
        }
        let mut id = self.raw_id();
        if is_keyword(&id) {
            id.push_str("-x");
        }
        if self.rng.chance(1, 15) {
            self.push(Tok { k: K::Ident, text: format!("%{id}") });
        } else {
            self.push(Tok { k: K::Ident, text: id.clone() });
        }
        json!({"string": id, "span": SPAN})
    }

    pub fn string(&mut self) -> Value {
        self.p("string");
        let choices = [
            "foo", "foo-bar", "wasi:io/streams@0.2.0", "a:b/c", "", "with space", "ünï-cödé ✓", "x/* not a comment */",
            "// nor this", "a\nb", "[method]r.m", "unlocked-dep=<a:b>", "%x", "...",
        ];
        let s = *self.rng.pick(&choices);
        self.push(Tok { k: K::Str, text: format!("\"{s}\"") });
        json!({"value": s, "span": SPAN})
    }

    fn version(&mut self) -> String {
        let v = [
            "1.0.0", "0.2.0", "0.0.1", "1.2.3", "10.20.30", "1.2.3-rc.1", "1.0.0-alpha", "2.0.0+build.5",
            "1.2.3-beta.2+exp.sha.5114f85", "0.1.0-0", "1.0.0-x-y-z",
        ];
        self.rng.pick(&v).to_string()
    }

    fn pkg_base(&mut self) -> String {
        let n = if self.rng.chance(1, 8) { 3 } else { 2 };
        let mut parts = Vec::new();
        for _ in 0..n {
            let mut id = self.raw_id().to_lowercase();
            if is_keyword(&id) {
                id.push_str("-p");
            }
            parts.push(id);
        }
        parts.join(":")
    }

    pub fn package_name(&mut self) -> Value {
        self.p("package-name");
        let name = self.pkg_base();
        let version = if self.rng.chance(1, 3) { Some(self.version()) } else { None };
        let string = match &version {
            Some(v) => format!("{name}@{v}"),
            None => name.clone(),
        };
        self.push(Tok { k: K::PkgName, text: string.clone() });
        json!({"string": string, "name": name, "version": version, "span": SPAN})
    }

    pub fn package_path(&mut self) -> Value {
        self.p("package-path");
        let name = self.pkg_base();
        let nseg = if self.rng.chance(1, 6) { 2 } else { 1 };
        let mut segs = Vec::new();
        for _ in 0..nseg {
            let mut id = self.raw_id().to_lowercase();
            if is_keyword(&id) {
                id.push_str("-s");
            }
            segs.push(id);
        }
        let segments = segs.join("/");
        let version = if self.rng.chance(1, 3) { Some(self.version()) } else { None };
        let string = match &version {
            Some(v) => format!("{name}/{segments}@{v}"),
            None => format!("{name}/{segments}"),
        };
        self.push(Tok { k: K::PkgPath, text: string.clone() });
        json!({"span": SPAN, "string": string, "name": name, "segments": segments, "version": version})
    }

    /// Optional doc comment before a docs-bearing construct; returns expected docs.
    fn docs(&mut self) -> Value {
        if self.rng.chance(1, 6) {
            self.p("doc-comment");
            let texts = ["a doc comment", "second: with, punctuation; { }", "ünïcode docs", "x"];
            let n = self.rng.range(1, 2);
            let mut out = Vec::new();
            for _ in 0..n {
                let t = *self.rng.pick(&texts);
                self.push(Tok { k: K::Doc, text: format!("/// {t}") });
                out.push(json!({"comment": t, "span": SPAN}));
            }
            Value::Array(out)
        } else {
            json!([])
        }
    }

    // ---------------------------------------------------------------------------------------
    // types

    pub fn ty(&mut self) -> Value {
        self.p("type");
        let deep = self.depth < 3;
        let pick = self.rng.below(if deep { 12 } else { 5 });
        match pick {
            0..=3 => {
                let t = *self.rng.pick(&PRIM_TYPES);
                self.kw(t);
                let mut m = serde_json::Map::new();
                m.insert(t.to_string(), json!(SPAN));
                Value::Object(m)
            }
            4 => json!({"ident": self.ident()}),
            5 | 6 => {
                self.p("tuple");
                self.kw("tuple");
                self.sym("<");
                self.depth += 1;
                let n = self.rng.range(1, 3);
                let mut tys = Vec::new();
                for i in 0..n {
                    if i > 0 {
                        self.sym(",");
                    }
                    tys.push(self.ty());
                }
                if self.rng.chance(1, 5) {
                    self.sym(",");
                    self.p("trailing-comma");
                }
                self.depth -= 1;
                self.sym(">");
                json!({"tuple": [tys, SPAN]})
            }
            7 => {
                self.p("list");
                self.kw("list");
                self.sym("<");
                self.depth += 1;
                let t = self.ty();
                self.depth -= 1;
                self.sym(">");
                json!({"list": [t, SPAN]})
            }
            8 => {
                self.p("option");
                self.kw("option");
                self.sym("<");
                self.depth += 1;
                let t = self.ty();
                self.depth -= 1;
                self.sym(">");
                json!({"option": [t, SPAN]})
            }
            9 | 10 => {
                self.p("result");
                self.kw("result");
                self.depth += 1;
                let v = match self.rng.below(4) {
                    0 => json!({"result": {"ok": null, "err": null, "span": SPAN}}),
                    1 => {
                        self.sym("<");
                        let ok = self.ty();
                        self.sym(">");
                        json!({"result": {"ok": ok, "err": null, "span": SPAN}})
                    }
                    2 => {
                        self.sym("<");
                        self.sym("_");
                        self.sym(",");
                        let err = self.ty();
                        self.sym(">");
                        json!({"result": {"ok": null, "err": err, "span": SPAN}})
                    }
                    _ => {
                        self.sym("<");
                        let ok = self.ty();
                        self.sym(",");
                        let err = self.ty();
                        self.sym(">");
                        json!({"result": {"ok": ok, "err": err, "span": SPAN}})
                    }
                };
                self.depth -= 1;
                v
            }
            _ => {
                self.p("borrow");
                self.kw("borrow");
                self.sym("<");
                let id = self.ident();
                self.sym(">");
                json!({"borrow": [id, SPAN]})
            }
        }
    }

    fn named_types(&mut self, close: &str, min: usize) -> Vec<Value> {
        let n = self.rng.range(min, 3);
        let mut out = Vec::new();
        for i in 0..n {
            if i > 0 {
                self.sym(",");
            }
            let id = self.ident();
            self.sym(":");
            let ty = self.ty();
            out.push(json!({"id": id, "ty": ty}));
        }
        if n > 0 && self.rng.chance(1, 5) {
            self.sym(",");
            self.p("trailing-comma");
        }
        let _ = close;
        out
    }

    pub fn func_type(&mut self) -> Value {
        self.p("func-type");
        self.kw("func");
        self.sym("(");
        let params = self.named_types(")", 0);
        self.sym(")");
        let results = if self.rng.chance(1, 2) {
            self.sym("->");
            let t = self.ty();
            json!({"scalar": t})
        } else {
            json!("empty")
        };
        json!({"params": params, "results": results})
    }

    fn ids_list(&mut self, docs_each: bool) -> Vec<Value> {
        let n = self.rng.range(1, 4);
        let mut out = Vec::new();
        for i in 0..n {
            if i > 0 {
                self.sym(",");
            }
            let docs = if docs_each { self.docs() } else { json!([]) };
            let id = self.ident();
            out.push(json!({"docs": docs, "id": id}));
        }
        if self.rng.chance(1, 4) {
            self.sym(",");
            self.p("trailing-comma");
        }
        out
    }

    /// type-decl (variant | record | flags | enum | alias). Returns (variant name in JSON, body).
    fn type_decl(&mut self) -> (&'static str, Value) {
        let docs = self.docs();
        match self.rng.below(5) {
            0 => {
                self.p("variant-decl");
                self.kw("variant");
                let id = self.ident();
                self.sym("{");
                let n = self.rng.range(1, 3);
                let mut cases = Vec::new();
                for i in 0..n {
                    if i > 0 {
                        self.sym(",");
                    }
                    let d = self.docs();
                    let cid = self.ident();
                    let ty = if self.rng.chance(1, 2) {
                        self.sym("(");
                        let t = self.ty();
                        self.sym(")");
                        t
                    } else {
                        Value::Null
                    };
                    cases.push(json!({"docs": d, "id": cid, "ty": ty}));
                }
                if self.rng.chance(1, 4) {
                    self.sym(",");
                }
                self.sym("}");
                ("variant", json!({"docs": docs, "id": id, "cases": cases}))
            }
            1 => {
                self.p("record-decl");
                self.kw("record");
                let id = self.ident();
                self.sym("{");
                let n = self.rng.range(1, 3);
                let mut fields = Vec::new();
                for i in 0..n {
                    if i > 0 {
                        self.sym(",");
                    }
                    let d = self.docs();
                    let fid = self.ident();
                    self.sym(":");
                    let ty = self.ty();
                    fields.push(json!({"docs": d, "id": fid, "ty": ty}));
                }
                if self.rng.chance(1, 4) {
                    self.sym(",");
                }
                self.sym("}");
                ("record", json!({"docs": docs, "id": id, "fields": fields}))
            }
            2 => {
                self.p("flags-decl");
                self.kw("flags");
                let id = self.ident();
                self.sym("{");
                let flags = self.ids_list(true);
                self.sym("}");
                ("flags", json!({"docs": docs, "id": id, "flags": flags}))
            }
            3 => {
                self.p("enum-decl");
                self.kw("enum");
                let id = self.ident();
                self.sym("{");
                let cases = self.ids_list(true);
                self.sym("}");
                ("enum", json!({"docs": docs, "id": id, "cases": cases}))
            }
            _ => {
                self.p("type-alias");
                self.kw("type");
                let id = self.ident();
                self.sym("=");
                let kind = if self.rng.chance(1, 3) {
                    json!({"func": self.func_type()})
                } else {
                    json!({"type": self.ty()})
                };
                self.sym(";");
                ("alias", json!({"docs": docs, "id": id, "kind": kind}))
            }
        }
    }

    fn resource_decl(&mut self) -> Value {
        self.p("resource-decl");
        let docs = self.docs();
        self.kw("resource");
        let id = self.ident();
        let mut methods = Vec::new();
        if self.rng.chance(1, 4) {
            self.sym(";");
        } else {
            self.sym("{");
            for _ in 0..self.rng.below(4) {
                let d = self.docs();
                if self.rng.chance(1, 3) {
                    self.p("constructor");
                    self.kw("constructor");
                    self.sym("(");
                    let params = self.named_types(")", 0);
                    self.sym(")");
                    self.sym(";");
                    methods.push(json!({"constructor": {"docs": d, "span": SPAN, "params": params}}));
                } else {
                    self.p("method");
                    let mid = self.ident();
                    self.sym(":");
                    let is_static = self.rng.chance(1, 3);
                    if is_static {
                        self.kw("static");
                        self.p("static-method");
                    }
                    let ty = self.func_type();
                    self.sym(";");
                    methods.push(json!({"method": {"docs": d, "id": mid, "isStatic": is_static, "ty": ty}}));
                }
            }
            self.sym("}");
        }
        json!({"docs": docs, "id": id, "methods": methods})
    }

    fn use_type(&mut self) -> Value {
        self.p("use-type");
        let docs = self.docs();
        self.kw("use");
        let path = if self.rng.chance(1, 2) {
            json!({"package": self.package_path()})
        } else {
            json!({"ident": self.ident()})
        };
        self.sym(".");
        self.sym("{");
        let n = self.rng.range(1, 3);
        let mut items = Vec::new();
        for i in 0..n {
            if i > 0 {
                self.sym(",");
            }
            let id = self.ident();
            let as_id = if self.rng.chance(1, 3) {
                self.kw("as");
                self.p("use-rename");
                self.ident()
            } else {
                Value::Null
            };
            items.push(json!({"id": id, "asId": as_id}));
        }
        if self.rng.chance(1, 4) {
            self.sym(",");
        }
        self.sym("}");
        self.sym(";");
        json!({"docs": docs, "path": path, "items": items})
    }

    fn interface_items(&mut self) -> Vec<Value> {
        let mut items = Vec::new();
        for _ in 0..self.rng.below(4) {
            match self.rng.below(6) {
                0 => items.push(json!({"use": self.use_type()})),
                1 | 2 => {
                    self.p("interface-export");
                    let docs = self.docs();
                    let id = self.ident();
                    self.sym(":");
                    let ty = if self.rng.chance(1, 4) {
                        json!({"ident": self.ident()})
                    } else {
                        json!({"func": self.func_type()})
                    };
                    self.sym(";");
                    items.push(json!({"export": {"docs": docs, "id": id, "ty": ty}}));
                }
                3 => items.push(json!({"type": {"resource": self.resource_decl()}})),
                _ => {
                    let (k, v) = self.type_decl();
                    let mut m = serde_json::Map::new();
                    m.insert(k.to_string(), v);
                    items.push(json!({"type": Value::Object(m)}));
                }
            }
        }
        items
    }

    fn inline_interface(&mut self) -> Value {
        self.p("inline-interface");
        self.kw("interface");
        self.sym("{");
        self.depth += 1;
        let items = self.interface_items();
        self.depth -= 1;
        self.sym("}");
        json!({"items": items})
    }

    fn world_item_path(&mut self) -> Value {
        match self.rng.below(4) {
            0 => json!({"package": self.package_path()}),
            1 => json!({"ident": self.ident()}),
            _ => {
                self.p("named-world-item");
                let id = self.ident();
                self.sym(":");
                let ty = match self.rng.below(3) {
                    0 => json!({"ident": self.ident()}),
                    1 => json!({"func": self.func_type()}),
                    _ => json!({"interface": self.inline_interface()}),
                };
                json!({"named": {"id": id, "ty": ty}})
            }
        }
    }

    fn world_items(&mut self) -> Vec<Value> {
        let mut items = Vec::new();
        for _ in 0..self.rng.below(5) {
            match self.rng.below(7) {
                0 => items.push(json!({"use": self.use_type()})),
                1 | 2 => {
                    self.p("world-import");
                    let docs = self.docs();
                    self.kw("import");
                    let path = self.world_item_path();
                    self.sym(";");
                    items.push(json!({"import": {"docs": docs, "path": path}}));
                }
                3 | 4 => {
                    self.p("world-export");
                    let docs = self.docs();
                    self.kw("export");
                    let path = self.world_item_path();
                    self.sym(";");
                    items.push(json!({"export": {"docs": docs, "path": path}}));
                }
                5 => {
                    self.p("world-include");
                    let docs = self.docs();
                    self.kw("include");
                    let world = if self.rng.chance(1, 2) {
                        json!({"package": self.package_path()})
                    } else {
                        json!({"ident": self.ident()})
                    };
                    let mut with = Vec::new();
                    if self.rng.chance(1, 2) {
                        self.p("include-with");
                        self.kw("with");
                        self.sym("{");
                        let n = self.rng.range(1, 2);
                        for i in 0..n {
                            if i > 0 {
                                self.sym(",");
                            }
                            let from = self.ident();
                            self.kw("as");
                            let to = self.ident();
                            with.push(json!({"from": from, "to": to}));
                        }
                        if self.rng.chance(1, 4) {
                            self.sym(",");
                        }
                        self.sym("}");
                    }
                    self.sym(";");
                    items.push(json!({"include": {"docs": docs, "world": world, "with": with}}));
                }
                _ => {
                    if self.rng.chance(1, 3) {
                        items.push(json!({"type": {"resource": self.resource_decl()}}));
                    } else {
                        let (k, v) = self.type_decl();
                        let mut m = serde_json::Map::new();
                        m.insert(k.to_string(), v);
                        items.push(json!({"type": Value::Object(m)}));
                    }
                }
            }
        }
        items
    }

    // ---------------------------------------------------------------------------------------
    // expressions

    pub fn expr(&mut self) -> Value {
        self.p("expr");
        let primary = match self.rng.below(if self.depth < 3 { 6 } else { 2 }) {
            0 | 1 => json!({"ident": self.ident()}),
            2 => {
                self.p("nested-expr");
                self.sym("(");
                self.depth += 1;
                let inner = self.expr();
                self.depth -= 1;
                self.sym(")");
                json!({"nested": {"span": SPAN, "inner": inner}})
            }
            _ => {
                self.p("new-expr");
                self.kw("new");
                let package = self.package_name();
                self.sym("{");
                self.depth += 1;
                let mut args = Vec::new();
                let n = self.rng.below(5);
                for i in 0..n {
                    if i > 0 {
                        self.sym(",");
                    }
                    match self.rng.below(8) {
                        0 | 1 => {
                            self.p("arg-inferred");
                            args.push(json!({"inferred": self.ident()}));
                        }
                        2 => {
                            self.p("arg-spread");
                            self.sym("...");
                            args.push(json!({"spread": self.ident()}));
                        }
                        3 => {
                            self.p("arg-fill");
                            self.sym("...");
                            args.push(json!({"fill": SPAN}));
                            if i + 1 < n {
                                self.p("arg-fill-not-last");
                            }
                        }
                        _ => {
                            self.p("arg-named");
                            let name = if self.rng.chance(1, 2) {
                                json!({"ident": self.ident()})
                            } else {
                                json!({"string": self.string()})
                            };
                            self.sym(":");
                            let e = self.expr();
                            args.push(json!({"named": {"name": name, "expr": e}}));
                        }
                    }
                }
                if n > 0 && self.rng.chance(1, 5) {
                    self.sym(",");
                    self.p("trailing-comma");
                }
                self.depth -= 1;
                self.sym("}");
                json!({"new": {"span": SPAN, "package": package, "arguments": args}})
            }
        };
        let mut postfix = Vec::new();
        for _ in 0..self.rng.below(3) {
            if self.rng.chance(1, 2) {
                self.p("access-expr");
                self.sym(".");
                let id = self.ident();
                postfix.push(json!({"access": {"span": SPAN, "id": id}}));
            } else {
                self.p("named-access-expr");
                self.sym("[");
                let s = self.string();
                self.sym("]");
                postfix.push(json!({"namedAccess": {"span": SPAN, "string": s}}));
            }
        }
        json!({"span": SPAN, "primary": primary, "postfix": postfix})
    }

    // ---------------------------------------------------------------------------------------
    // statements / document

    pub fn statement(&mut self) -> Value {
        match self.rng.below(8) {
            0 | 1 => {
                self.p("import-statement");
                let docs = self.docs();
                self.kw("import");
                let id = self.ident();
                let name = if self.rng.chance(1, 3) {
                    self.kw("as");
                    self.p("import-as");
                    if self.rng.chance(1, 2) {
                        json!({"ident": self.ident()})
                    } else {
                        json!({"string": self.string()})
                    }
                } else {
                    Value::Null
                };
                self.sym(":");
                let ty = match self.rng.below(4) {
                    0 => json!({"package": self.package_path()}),
                    1 => json!({"func": self.func_type()}),
                    2 => json!({"interface": self.inline_interface()}),
                    _ => json!({"ident": self.ident()}),
                };
                self.sym(";");
                json!({"Import": {"docs": docs, "id": id, "name": name, "ty": ty}})
            }
            2 | 3 => {
                self.p("let-statement");
                let docs = self.docs();
                self.kw("let");
                let id = self.ident();
                self.sym("=");
                let e = self.expr();
                self.sym(";");
                json!({"Let": {"docs": docs, "id": id, "expr": e}})
            }
            4 | 5 => {
                self.p("export-statement");
                let docs = self.docs();
                self.kw("export");
                let e = self.expr();
                let options = match self.rng.below(3) {
                    0 => json!("none"),
                    1 => {
                        self.p("export-spread");
                        self.sym("...");
                        json!({"spread": SPAN})
                    }
                    _ => {
                        self.p("export-as");
                        self.kw("as");
                        if self.rng.chance(1, 2) {
                            json!({"rename": {"ident": self.ident()}})
                        } else {
                            json!({"rename": {"string": self.string()}})
                        }
                    }
                };
                self.sym(";");
                json!({"Export": {"docs": docs, "expr": e, "options": options}})
            }
            _ => match self.rng.below(3) {
                0 => {
                    self.p("interface-decl");
                    let docs = self.docs();
                    self.kw("interface");
                    let id = self.ident();
                    self.sym("{");
                    let items = self.interface_items();
                    self.sym("}");
                    json!({"Type": {"interface": {"docs": docs, "id": id, "items": items}}})
                }
                1 => {
                    self.p("world-decl");
                    let docs = self.docs();
                    self.kw("world");
                    let id = self.ident();
                    self.sym("{");
                    let items = self.world_items();
                    self.sym("}");
                    json!({"Type": {"world": {"docs": docs, "id": id, "items": items}}})
                }
                _ => {
                    let (k, v) = self.type_decl();
                    let mut m = serde_json::Map::new();
                    m.insert(k.to_string(), v);
                    json!({"Type": {"type": Value::Object(m)}})
                }
            },
        }
    }

    pub fn document(&mut self, max_statements: usize) -> Value {
        self.p("document");
        let docs = self.docs();
        self.kw("package");
        let package = self.package_name();
        let mut directive = serde_json::Map::new();
        directive.insert("package".into(), package);
        if self.rng.chance(1, 3) {
            self.p("targets-clause");
            self.kw("targets");
            directive.insert("targets".into(), self.package_path());
        }
        self.sym(";");
        let n = self.rng.below(max_statements + 1);
        let mut statements = Vec::new();
        for _ in 0..n {
            statements.push(self.statement());
        }
        json!({"docs": docs, "directive": Value::Object(directive), "statements": statements})
    }
}

// ---------------------------------------------------------------------------------------------
// layout

fn needs_space(a: &Tok, b: &Tok) -> bool {
    const SAFE: [&str; 11] = [";", "{", "}", "(", ")", "<", ">", ",", "[", "]", "="];
    let a_safe = a.k == K::Sym && SAFE.contains(&a.text.as_str());
    let b_safe = b.k == K::Sym && SAFE.contains(&b.text.as_str());
    if a.k == K::Doc {
        return true;
    }
    if a.k == K::Str || b.k == K::Str {
        // a string is self-delimiting
        return false;
    }
    !(a_safe || b_safe)
}

/// Renders tokens with randomised whitespace and (non-doc) comments; never lets two tokens fuse.
/// Reference scanner for nested block comments (`/*` opens, `*/` closes, left to right, a
/// delimiter consumes both of its characters). Returns the nesting depth after every complete
/// delimiter, or `None` if the text does not start with `/*`.
pub fn comment_depths(s: &str) -> Option<Vec<(usize, usize)>> {
    let b = s.as_bytes();
    if !s.starts_with("/*") {
        return None;
    }
    let (mut i, mut depth, mut out) = (0usize, 0usize, Vec::new());
    while i < b.len() {
        if i + 1 < b.len() && b[i] == b'/' && b[i + 1] == b'*' {
            depth += 1;
            i += 2;
            out.push((i, depth));
        } else if i + 1 < b.len() && b[i] == b'*' && b[i + 1] == b'/' {
            if depth == 0 {
                return None;
            }
            depth -= 1;
            i += 2;
            out.push((i, depth));
        } else {
            i += 1;
        }
    }
    Some(out)
}

/// Is `s` exactly one complete (possibly nested) block comment?
pub fn is_one_block_comment(s: &str) -> bool {
    match comment_depths(s) {
        Some(d) => d.last().map_or(false, |(end, depth)| *depth == 0 && *end == s.len()) && d.iter().filter(|(_, depth)| *depth == 0).count() == 1,
        None => false,
    }
}

/// A block comment built from pieces chosen to put `/`, `*` and delimiters next to each other
/// (`/*/`, `**/`, `/**`, nested comments); validated by the reference scanner.
pub fn gen_block_comment(rng: &mut Rng, depth: usize) -> String {
    const PIECES: &[&str] = &["a", " ", "/", "*", "/ ", " *", "x/", "*y", "//", "**", " ; } { ", "\n", "\"q"];
    for _ in 0..20 {
        let mut c = String::from("/*");
        for _ in 0..rng.range(0, 5) {
            if depth < 2 && rng.chance(1, 4) {
                c.push_str(&gen_block_comment(rng, depth + 1));
            } else {
                c.push_str(*rng.pick(PIECES));
            }
        }
        c.push_str("*/");
        // `/**` would be a doc comment (except the empty comment `/**/`)
        if is_one_block_comment(&c) && (!c.starts_with("/**") || c == "/**/") {
            return c;
        }
    }
    "/* c */".to_string()
}

/// A block comment that is not terminated at the end of the text (reference scanner: the depth
/// never returns to zero).
pub fn gen_unterminated_comment(rng: &mut Rng) -> String {
    for _ in 0..20 {
        let c = gen_block_comment(rng, 0);
        let cut = &c[..c.len() - 2];
        if let Some(d) = comment_depths(cut) {
            if d.iter().all(|(_, depth)| *depth > 0) && !cut.ends_with('*') && !cut.ends_with('/') {
                return cut.to_string();
            }
        }
    }
    "/* unterminated".to_string()
}

pub fn layout(rng: &mut Rng, toks: &[Tok], fancy: bool) -> String {
    let mut s = String::new();
    for (i, t) in toks.iter().enumerate() {
        if i > 0 {
            let prev = &toks[i - 1];
            let must = needs_space(prev, t);
            if prev.k == K::Doc {
                s.push('\n');
            }
            if !fancy {
                if must {
                    s.push(' ');
                }
            } else {
                let choice = rng.below(14);
                let generated;
                let sep: &str = match choice {
                    0 | 1 | 2 | 3 => " ",
                    4 => "\n",
                    5 => "\t",
                    6 => "  \n  ",
                    7 => {
                        generated = format!(" {} ", gen_block_comment(rng, 0));
                        &generated
                    }
                    8 => " // line comment ; } { \n",
                    9 => " /* outer /* nested */ still */ ",
                    10 => "\r\n",
                    11 => "/**/",
                    _ => "",
                };
                if sep.is_empty() && must {
                    s.push(' ');
                } else if t.k == K::Doc && (sep.starts_with(" /*") || sep.starts_with(" //") || sep == "/**/") {
                    // keep doc comments adjacent to what they document only through whitespace,
                    // and never let a separator comment be read as documentation
                    s.push('\n');
                } else {
                    s.push_str(sep);
                }
            }
        }
        s.push_str(&t.text);
        if t.k == K::Doc && i + 1 == toks.len() {
            s.push('\n');
        }
    }
    // the text may end inside trivia: a line comment running to the end of the input (no final
    // newline), a block comment, or bare whitespace
    if fancy {
        match rng.below(10) {
            0 => s.push_str(" // a comment that runs to the end of the input"),
            1 => s.push_str("\n//"),
            2 => {
                s.push(' ');
                s.push_str(&gen_block_comment(rng, 0));
            }
            3 => s.push_str(" \t"),
            _ => {}
        }
    }
    s
}

// ---------------------------------------------------------------------------------------------
// M4: reference recogniser over token lists (written from the EBNF in LANGUAGE.md)
//
// Deviations from the EBNF text, each recorded in the evidence assumptions:
//  * `id` also admits WIT's upper-case acronym words (WAC declares itself a WIT superset);
//  * an argument list may be empty and `...` may appear at any argument position (the prose of
//    LANGUAGE.md uses `{ ... }` and `{}`; "`...` must be last" is an evaluation rule);
//  * `results ::= type` only: the named result list of the EBNF was removed from WIT and is not
//    implemented (documentation staleness, see DESIGN.md);
//  * `borrow '<' id '>'` (a borrow names a resource);
//  * in `result<..>` the placeholder `_` may stand for either arm (`result<_>`, `result<T, _>`):
//    the repository's own fixture tests/resolution/fail/missing-ok-result-type.wac relies on it.

pub struct Rec<'a> {
    t: &'a [Tok],
    i: usize,
}

type R = Result<(), usize>;

impl<'a> Rec<'a> {
    fn peek(&self) -> Option<&Tok> {
        self.t.get(self.i)
    }
    fn peek2(&self) -> Option<&Tok> {
        self.t.get(self.i + 1)
    }
    fn is_sym(&self, s: &str) -> bool {
        matches!(self.peek(), Some(t) if t.k == K::Sym && t.text == s)
    }
    fn is_kw(&self, s: &str) -> bool {
        matches!(self.peek(), Some(t) if t.k == K::Kw && t.text == s)
    }
    fn is_k(&self, k: K) -> bool {
        matches!(self.peek(), Some(t) if t.k == k)
    }
    fn sym(&mut self, s: &str) -> R {
        if self.is_sym(s) {
            self.i += 1;
            Ok(())
        } else {
            Err(self.i)
        }
    }
    fn kw(&mut self, s: &str) -> R {
        if self.is_kw(s) {
            self.i += 1;
            Ok(())
        } else {
            Err(self.i)
        }
    }
    fn id(&mut self) -> R {
        if self.is_k(K::Ident) {
            self.i += 1;
            Ok(())
        } else {
            Err(self.i)
        }
    }
    fn string(&mut self) -> R {
        if self.is_k(K::Str) {
            self.i += 1;
            Ok(())
        } else {
            Err(self.i)
        }
    }
    fn versioned(&mut self, k: K) -> R {
        match self.peek() {
            Some(t) if t.k == k => {
                if let Some(at) = t.text.find('@') {
                    if semver::Version::parse(&t.text[at + 1..]).is_err() {
                        return Err(self.i);
                    }
                }
                self.i += 1;
                Ok(())
            }
            _ => Err(self.i),
        }
    }
    fn pkg_name(&mut self) -> R {
        self.versioned(K::PkgName)
    }
    fn pkg_path(&mut self) -> R {
        self.versioned(K::PkgPath)
    }

    fn document(&mut self) -> R {
        self.kw("package")?;
        self.pkg_name()?;
        if self.is_kw("targets") {
            self.i += 1;
            self.pkg_path()?;
        }
        self.sym(";")?;
        while self.peek().is_some() {
            self.statement()?;
        }
        Ok(())
    }

    fn statement(&mut self) -> R {
        if self.is_kw("import") {
            self.i += 1;
            self.id()?;
            if self.is_kw("as") {
                self.i += 1;
                if self.is_k(K::Ident) {
                    self.id()?;
                } else {
                    self.string()?;
                }
            }
            self.sym(":")?;
            if self.is_k(K::PkgPath) {
                self.pkg_path()?;
            } else if self.is_kw("func") {
                self.func_type()?;
            } else if self.is_kw("interface") {
                self.inline_interface()?;
            } else {
                self.id()?;
            }
            self.sym(";")
        } else if self.is_kw("let") {
            self.i += 1;
            self.id()?;
            self.sym("=")?;
            self.expr()?;
            self.sym(";")
        } else if self.is_kw("export") {
            self.i += 1;
            self.expr()?;
            if self.is_sym("...") {
                self.i += 1;
            } else if self.is_kw("as") {
                self.i += 1;
                if self.is_k(K::Ident) {
                    self.id()?;
                } else {
                    self.string()?;
                }
            }
            self.sym(";")
        } else if self.is_kw("interface") {
            self.i += 1;
            self.id()?;
            self.sym("{")?;
            while !self.is_sym("}") {
                self.interface_item()?;
            }
            self.sym("}")
        } else if self.is_kw("world") {
            self.i += 1;
            self.id()?;
            self.sym("{")?;
            while !self.is_sym("}") {
                self.world_item()?;
            }
            self.sym("}")
        } else {
            self.type_decl()
        }
    }

    fn type_decl(&mut self) -> R {
        if self.is_kw("variant") {
            self.i += 1;
            self.id()?;
            self.sym("{")?;
            self.comma_list("}", 1, |r| {
                r.id()?;
                if r.is_sym("(") {
                    r.i += 1;
                    r.ty()?;
                    r.sym(")")?;
                }
                Ok(())
            })?;
            self.sym("}")
        } else if self.is_kw("record") {
            self.i += 1;
            self.id()?;
            self.sym("{")?;
            self.comma_list("}", 1, |r| r.named_type())?;
            self.sym("}")
        } else if self.is_kw("flags") || self.is_kw("enum") {
            self.i += 1;
            self.id()?;
            self.sym("{")?;
            self.comma_list("}", 1, |r| r.id())?;
            self.sym("}")
        } else if self.is_kw("type") {
            self.i += 1;
            self.id()?;
            self.sym("=")?;
            if self.is_kw("func") {
                self.func_type()?;
            } else {
                self.ty()?;
            }
            self.sym(";")
        } else {
            Err(self.i)
        }
    }

    /// item (',' item)* ','?   with at least `min` items, up to (not consuming) `close`.
    fn comma_list(&mut self, close: &str, min: usize, mut item: impl FnMut(&mut Self) -> R) -> R {
        let mut n = 0;
        loop {
            if self.is_sym(close) {
                break;
            }
            item(self)?;
            n += 1;
            if self.is_sym(",") {
                self.i += 1;
            } else {
                break;
            }
        }
        if n < min {
            return Err(self.i);
        }
        Ok(())
    }

    fn named_type(&mut self) -> R {
        self.id()?;
        self.sym(":")?;
        self.ty()
    }

    fn func_type(&mut self) -> R {
        self.kw("func")?;
        self.sym("(")?;
        self.comma_list(")", 0, |r| r.named_type())?;
        self.sym(")")?;
        if self.is_sym("->") {
            self.i += 1;
            self.ty()?;
        }
        Ok(())
    }

    fn ty(&mut self) -> R {
        let Some(t) = self.peek() else { return Err(self.i) };
        if t.k == K::Ident {
            self.i += 1;
            return Ok(());
        }
        if t.k != K::Kw {
            return Err(self.i);
        }
        let text = t.text.clone();
        if PRIM_TYPES.contains(&text.as_str()) {
            self.i += 1;
            return Ok(());
        }
        match text.as_str() {
            "tuple" => {
                self.i += 1;
                self.sym("<")?;
                self.comma_list(">", 1, |r| r.ty())?;
                self.sym(">")
            }
            "list" | "option" => {
                self.i += 1;
                self.sym("<")?;
                self.ty()?;
                self.sym(">")
            }
            "result" => {
                self.i += 1;
                if self.is_sym("<") {
                    self.i += 1;
                    // `_` may stand for either absent arm (see the deviations listed above)
                    if self.is_sym("_") {
                        self.i += 1;
                    } else {
                        self.ty()?;
                    }
                    if self.is_sym(",") {
                        self.i += 1;
                        if self.is_sym("_") {
                            self.i += 1;
                        } else {
                            self.ty()?;
                        }
                    }
                    self.sym(">")?;
                }
                Ok(())
            }
            "borrow" => {
                self.i += 1;
                self.sym("<")?;
                self.id()?;
                self.sym(">")
            }
            _ => Err(self.i),
        }
    }

    fn use_type(&mut self) -> R {
        self.kw("use")?;
        if self.is_k(K::PkgPath) {
            self.pkg_path()?;
        } else {
            self.id()?;
        }
        self.sym(".")?;
        self.sym("{")?;
        self.comma_list("}", 1, |r| {
            r.id()?;
            if r.is_kw("as") {
                r.i += 1;
                r.id()?;
            }
            Ok(())
        })?;
        self.sym("}")?;
        self.sym(";")
    }

    fn item_type_decl(&mut self) -> R {
        if self.is_kw("resource") {
            self.i += 1;
            self.id()?;
            if self.is_sym(";") {
                self.i += 1;
                return Ok(());
            }
            self.sym("{")?;
            while !self.is_sym("}") {
                if self.is_kw("constructor") {
                    self.i += 1;
                    self.sym("(")?;
                    self.comma_list(")", 0, |r| r.named_type())?;
                    self.sym(")")?;
                    self.sym(";")?;
                } else {
                    self.id()?;
                    self.sym(":")?;
                    if self.is_kw("static") {
                        self.i += 1;
                    }
                    self.func_type()?;
                    self.sym(";")?;
                }
            }
            self.sym("}")
        } else {
            self.type_decl()
        }
    }

    fn interface_item(&mut self) -> R {
        if self.is_kw("use") {
            self.use_type()
        } else if self.is_k(K::Ident) {
            self.id()?;
            self.sym(":")?;
            if self.is_kw("func") {
                self.func_type()?;
            } else {
                self.id()?;
            }
            self.sym(";")
        } else {
            self.item_type_decl()
        }
    }

    fn inline_interface(&mut self) -> R {
        self.kw("interface")?;
        self.sym("{")?;
        while !self.is_sym("}") {
            self.interface_item()?;
        }
        self.sym("}")
    }

    fn world_item_path(&mut self) -> R {
        if self.is_k(K::PkgPath) {
            self.pkg_path()
        } else if self.is_k(K::Ident) {
            let named = matches!(self.peek2(), Some(t) if t.k == K::Sym && t.text == ":");
            self.id()?;
            if named {
                self.sym(":")?;
                if self.is_kw("func") {
                    self.func_type()
                } else if self.is_kw("interface") {
                    self.inline_interface()
                } else {
                    self.id()
                }
            } else {
                Ok(())
            }
        } else {
            Err(self.i)
        }
    }

    fn world_item(&mut self) -> R {
        if self.is_kw("use") {
            self.use_type()
        } else if self.is_kw("import") || self.is_kw("export") {
            self.i += 1;
            self.world_item_path()?;
            self.sym(";")
        } else if self.is_kw("include") {
            self.i += 1;
            if self.is_k(K::PkgPath) {
                self.pkg_path()?;
            } else {
                self.id()?;
            }
            if self.is_kw("with") {
                self.i += 1;
                self.sym("{")?;
                self.comma_list("}", 1, |r| {
                    r.id()?;
                    r.kw("as")?;
                    r.id()
                })?;
                self.sym("}")?;
            }
            self.sym(";")
        } else {
            self.item_type_decl()
        }
    }

    fn expr(&mut self) -> R {
        if self.is_kw("new") {
            self.i += 1;
            self.pkg_name()?;
            self.sym("{")?;
            self.comma_list("}", 0, |r| {
                if r.is_sym("...") {
                    r.i += 1;
                    // `...` alone is the fill; `... id` is a spread
                    if r.is_k(K::Ident) {
                        r.i += 1;
                    }
                    Ok(())
                } else if r.is_k(K::Ident) || r.is_k(K::Str) {
                    let named = matches!(r.peek2(), Some(t) if t.k == K::Sym && t.text == ":");
                    if named {
                        r.i += 2;
                        r.expr()
                    } else if r.is_k(K::Ident) {
                        r.i += 1;
                        Ok(())
                    } else {
                        Err(r.i)
                    }
                } else {
                    Err(r.i)
                }
            })?;
            self.sym("}")?;
        } else if self.is_sym("(") {
            self.i += 1;
            self.expr()?;
            self.sym(")")?;
        } else {
            self.id()?;
        }
        loop {
            if self.is_sym(".") {
                self.i += 1;
                self.id()?;
            } else if self.is_sym("[") {
                self.i += 1;
                self.string()?;
                self.sym("]")?;
            } else {
                break;
            }
        }
        Ok(())
    }
}

/// Reference verdict: is the token sequence (docs ignored) derivable?
pub fn recognise(toks: &[Tok]) -> Result<(), usize> {
    let filtered: Vec<Tok> = toks.iter().filter(|t| t.k != K::Doc).cloned().collect();
    let mut r = Rec { t: &filtered, i: 0 };
    r.document()
}

// ---------------------------------------------------------------------------------------------
// mutation

pub fn random_token(rng: &mut Rng) -> Tok {
    match rng.below(10) {
        0 | 1 => kw(*rng.pick(&KEYWORDS)),
        2 | 3 | 4 => sym(*rng.pick(&SYMBOLS)),
        5 | 6 => Tok { k: K::Ident, text: rng.pick(words()).to_string() },
        7 => Tok { k: K::Str, text: "\"s\"".into() },
        8 => Tok { k: K::PkgName, text: rng.pick(&["a:b", "foo:bar@1.0.0", "x:y@1.0", "a:b:c"]).to_string() },
        _ => Tok { k: K::PkgPath, text: rng.pick(&["a:b/c", "foo:bar/baz@1.2.3", "x:y/z@01.0.0", "a:b/c/d"]).to_string() },
    }
}

/// One token-level mutation; returns the mutation kind.
pub fn mutate(rng: &mut Rng, toks: &mut Vec<Tok>) -> &'static str {
    // positions of non-doc tokens
    let idx: Vec<usize> = (0..toks.len()).filter(|i| toks[*i].k != K::Doc).collect();
    if idx.is_empty() {
        toks.push(random_token(rng));
        return "insert";
    }
    let i = *rng.pick(&idx);
    match rng.below(5) {
        0 => {
            toks.remove(i);
            "delete"
        }
        1 => {
            let t = toks[i].clone();
            toks.insert(i, t);
            "duplicate"
        }
        2 => {
            toks[i] = random_token(rng);
            "substitute"
        }
        3 => {
            if i + 1 < toks.len() {
                toks.swap(i, i + 1);
            } else {
                toks.remove(i);
            }
            "swap"
        }
        _ => {
            toks.insert(i, random_token(rng));
            "insert"
        }
    }
}

/// Replaces every span object by the `SPAN` placeholder.
pub fn strip_spans(v: &Value) -> Value {
    match v {
        Value::Object(m) => {
            if m.len() == 2 && m.contains_key("offset") && m.contains_key("length") {
                return json!(SPAN);
            }
            Value::Object(m.iter().map(|(k, v)| (k.clone(), strip_spans(v))).collect())
        }
        Value::Array(a) => Value::Array(a.iter().map(strip_spans).collect()),
        other => other.clone(),
    }
}

/// Collects every span object found in a serialised tree.
pub fn collect_spans(v: &Value, out: &mut Vec<(u64, u64)>) {
    match v {
        Value::Object(m) => {
            if m.len() == 2 && m.contains_key("offset") && m.contains_key("length") {
                if let (Some(o), Some(l)) = (m["offset"].as_u64(), m["length"].as_u64()) {
                    out.push((o, l));
                }
                return;
            }
            for v in m.values() {
                collect_spans(v, out);
            }
        }
        Value::Array(a) => {
            for v in a {
                collect_spans(v, out);
            }
        }
        _ => {}
    }
}

/// Normalises doc comments "up to line splitting": every `docs` array becomes the list of the
/// trimmed non-empty lines of its comments.
pub fn normalize_docs(v: &Value) -> Value {
    match v {
        Value::Object(m) => {
            let mut out = serde_json::Map::new();
            for (k, val) in m {
                if k == "docs" {
                    let mut lines = Vec::new();
                    if let Some(a) = val.as_array() {
                        for d in a {
                            if let Some(c) = d.get("comment").and_then(|c| c.as_str()) {
                                for l in c.lines() {
                                    let l = l.trim().trim_start_matches('*').trim();
                                    if !l.is_empty() {
                                        lines.push(json!(l));
                                    }
                                }
                            }
                        }
                    }
                    out.insert(k.clone(), Value::Array(lines));
                } else {
                    out.insert(k.clone(), normalize_docs(val));
                }
            }
            Value::Object(out)
        }
        Value::Array(a) => Value::Array(a.iter().map(normalize_docs).collect()),
        other => other.clone(),
    }
}


/// Empties every `docs` array (C12 is about structure; documentation comments are C13's).
pub fn drop_docs(v: &Value) -> Value {
    match v {
        Value::Object(m) => Value::Object(
            m.iter()
                .map(|(k, v)| if k == "docs" { (k.clone(), json!([])) } else { (k.clone(), drop_docs(v)) })
                .collect(),
        ),
        Value::Array(a) => Value::Array(a.iter().map(drop_docs).collect()),
        other => other.clone(),
    }
}
