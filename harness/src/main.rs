//! `worker <prop> --seed S --tier T --shard i --nshards n --out FILE [--case K] [--replay-input F]`
#![allow(dead_code)]
//!
//! One process runs one shard of one property's workload, with the monitors online, and
//! writes a JSON summary (counters, distinct shapes, samples, violations) to `--out`.

mod ctx;
mod props;
mod util;

fn main() {
    let args: Vec<String> = std::env::args().skip(1).collect();
    util::install_panic_hook();
    let mut ctx = ctx::Ctx::from_args(&args);
    let prop = ctx.prop.clone();
    match prop.as_str() {
        "C15" => props::c15::run(&mut ctx),
        other => {
            eprintln!("unknown property {other}");
            std::process::exit(2);
        }
    }
    ctx.finish();
}
