//! `worker <prop> --seed S --tier T --shard i --nshards n --out FILE [--case K] [--replay-input F]`
#![allow(dead_code)]
//!
//! One process runs one shard of one property's workload, with the monitors online, and
//! writes a JSON summary (counters, distinct shapes, samples, violations) to `--out`.

mod compose;
mod ctx;
/// Whether wac-resolver is built with its `wat` feature in this crate (C18 lanes).
pub const WAT_ENABLED: bool = true;
mod decode;
mod fixtures;
mod props;
mod refval;
mod util;
mod wacgen;
mod witgen;
mod witness;

struct StderrLog;
impl log::Log for StderrLog {
    fn enabled(&self, _: &log::Metadata) -> bool {
        true
    }
    fn log(&self, r: &log::Record) {
        eprintln!("[{}] {}", r.target(), r.args());
    }
    fn flush(&self) {}
}

fn main() {
    if std::env::var_os("WACVERIF_LOG").is_some() {
        let _ = log::set_logger(&StderrLog);
        log::set_max_level(log::LevelFilter::Debug);
    }
    let args: Vec<String> = std::env::args().skip(1).collect();
    util::install_panic_hook();
    let mut ctx = ctx::Ctx::from_args(&args);
    let prop = ctx.prop.clone();
    match prop.as_str() {
        "C01" => props::c01::run(&mut ctx),
        "C02" => props::c02::run(&mut ctx),
        "C03" => props::c03::run(&mut ctx),
        "C04" => props::c04::run(&mut ctx),
        "C05" => props::c05::run(&mut ctx),
        "C06" => props::c06::run(&mut ctx),
        "C07" => props::c07::run(&mut ctx),
        "C08" => props::c08::run(&mut ctx),
        "C09" => props::c09::run(&mut ctx),
        "C10" => props::c10::run(&mut ctx),
        "C11" => props::c11::run(&mut ctx),
        "C12" => props::c12::run(&mut ctx),
        "C16" => props::c16::run(&mut ctx),
        "C17" => props::c17::run(&mut ctx),
        "C19" => props::c19::run(&mut ctx),
        "C18" => props::c18::run(&mut ctx),
        "C13" => props::c13::run(&mut ctx),
        "C14" => props::c14::run(&mut ctx),
        "C15" => props::c15::run(&mut ctx),
        "debug-c01" => {
            // dumps the output WAT of one C01 case: worker debug-c01 --case K [--seed S]
            let case = ctx.only_case.expect("--case");
            let mut rng = ctx.rng_for("C01", case);
            let lo = props::c01::lib_opts_for(&mut rng);
            let lib = witgen::gen_library(&mut rng, &lo).unwrap();
            let co = props::c01::compose_opts_for(&mut rng);
            let built = compose::build(&mut rng, &lib, &co).unwrap();
            for o in &built.ops {
                println!("{} {}", if o.ok { "  " } else { "!!" }, o.text);
            }
            for c in &lib.comps {
                println!("{}: decoded imports {:?}", c.name, c.decoded.import_names());
                for i in c.decoded.import_names() {
                    println!("   entangled({i}) = {}", compose::resource_entangled(&lib, c, &i));
                }
            }
            for c in &lib.comps {
                if std::env::var("DUMP_COMPS").is_ok() {
                    println!("==== {}\n{}", c.name, wasmprinter::print_bytes(&c.bytes).unwrap());
                }
            }
            for define in [true, false] {
                let r = util::catch(|| built.graph.encode(wac_graph::EncodeOptions { define_components: define, validate: false, processor: None }));
                let r = match r {
                    Ok(r) => r,
                    Err(p) => {
                        println!("---- define_components={define}: PANIC {p}");
                        continue;
                    }
                };
                match r {
                    Ok(b) => {
                        println!("---- define_components={define}: {:?}", decode::validate(&b));
                        if !define || std::env::var("DUMP_EMBEDDED").is_ok() {
                            println!("{}", wasmprinter::print_bytes(&b).unwrap_or_else(|e| format!("print failed: {e}")));
                        }
                    }
                    Err(e) => println!("---- define_components={define}: error {e}"),
                }
            }
        }
        "debug-wit" => {
            // worker debug-wit --replay-input f.json   {"libs": ["..."], "world": "package test:a; world w {...}"}
            let v = ctx.replay_input.clone().expect("input");
            let libs: Vec<(String, String)> = v["libs"].as_array().unwrap().iter().enumerate().map(|(i, t)| (format!("lib{i}"), t.as_str().unwrap().to_string())).collect();
            let bytes = witgen::build_component(&libs, v["world"].as_str().unwrap(), "w").expect("component");
            let mut g = wac_graph::CompositionGraph::new();
            let p = wac_types::Package::from_bytes("test:a", None, bytes.clone(), g.types_mut()).unwrap();
            let id = g.register_package(p).unwrap();
            g.instantiate(id);
            let r = util::catch(|| g.encode(wac_graph::EncodeOptions { define_components: false, validate: false, processor: None }));
            match r {
                Ok(Ok(b)) => println!("validate: {:?}", decode::validate(&b)),
                Ok(Err(e)) => println!("encode error: {e}"),
                Err(p) => println!("PANIC {p}"),
            }
            if std::env::var("DUMP_COMPS").is_ok() {
                println!("{}", wasmprinter::print_bytes(&bytes).unwrap());
            }
        }
        "debug-c16" => {
            let case = ctx.only_case.expect("--case");
            let mut rng = ctx.rng_for("C16", case);
            props::c16::debug_composition(&mut rng);
        }
        "debug-wat" => {
            let text = ctx.replay_input.as_ref().and_then(|v| v.as_str()).expect("json string").to_string();
            match wat::parse_str(&text) {
                Ok(b) => println!("parsed {} bytes; validate: {:?}", b.len(), decode::validate(&b)),
                Err(e) => println!("wat error: {e}"),
            }
        }
        "debug-c05" => {
            // worker debug-c05 --replay-input file.json   (json string, or {"text":..,"deps":[..]})
            let v = ctx.replay_input.clone().expect("input");
            let (text, deps): (String, Vec<String>) = match &v {
                serde_json::Value::String(s) => (s.clone(), vec![]),
                o => (o["text"].as_str().unwrap().to_string(), o["deps"].as_array().map(|a| a.iter().map(|d| d.as_str().unwrap().to_string()).collect()).unwrap_or_default()),
            };
            let doc = wac_parser::Document::parse(&text).expect("wac parse");
            let mut map: indexmap::IndexMap<wac_types::BorrowedPackageKey, Vec<u8>> = indexmap::IndexMap::new();
            let mut keys = Vec::new();
            for d in &deps {
                let bytes = witgen::encode_wit_package(&[], d).expect("dep encode");
                let head = d.lines().next().unwrap().trim_start_matches("package ").trim_end_matches(';').to_string();
                let (n, ver) = match head.split_once('@') {
                    Some((n, v)) => (n.to_string(), Some(semver::Version::parse(v).unwrap())),
                    None => (head, None),
                };
                keys.push((n, ver, bytes));
            }
            for (n, ver, b) in &keys {
                map.insert(wac_types::BorrowedPackageKey::from_name_and_version(n, ver.as_ref()), b.clone());
            }
            let res = doc.resolve(map).expect("resolve");
            let w = res.encode(wac_graph::EncodeOptions { define_components: true, validate: false, processor: None }).expect("encode");
            println!("=== wac\n{}", wasmprinter::print_bytes(&w).unwrap());
            println!("=== validate: {:?}", decode::validate(&w));
            if let Some(wit) = v.get("wit").and_then(|w| w.as_str()) {
                let named: Vec<(String, String)> = deps.iter().enumerate().map(|(i, d)| (format!("lib{i}"), d.clone())).collect();
                let r = witgen::encode_wit_package(&named, wit).expect("wit encode");
                println!("=== reference\n{}", wasmprinter::print_bytes(&r).unwrap());
            }
        }
        "debug-c17-lib" => {
            // worker debug-c17-lib --scratch DIR : writes the C17/C19 package library as DIR/<ns>/<name>[@ver].wasm
            let lib = props::c17::build_lib().expect("lib");
            for ((name, ver), bytes) in &lib.all {
                let (ns, n) = name.split_once(':').unwrap();
                let dir = std::path::Path::new(&ctx.scratch).join(ns);
                std::fs::create_dir_all(&dir).unwrap();
                let f = match ver {
                    Some(v) => dir.join(format!("{n}@{v}.wasm")),
                    None => dir.join(format!("{n}.wasm")),
                };
                std::fs::write(f, bytes).unwrap();
            }
        }
        "debug-build-comp" => {
            // worker debug-build-comp --replay-input f.json --scratch out.wasm ; f.json = {"lib":[..texts],"world":"text"}
            let v = ctx.replay_input.clone().expect("input");
            let libs: Vec<(String, String)> = v["lib"].as_array().unwrap().iter().enumerate().map(|(i, t)| (format!("lib{i}"), t.as_str().unwrap().to_string())).collect();
            let b = witgen::build_component(&libs, v["world"].as_str().unwrap(), "w").expect("build");
            std::fs::write(&ctx.scratch, b).unwrap();
        }
        "debug-uses" => {
            // worker debug-uses --replay-input f.json ; f.json = {"lib":[..texts],"world":"text"} : prints the `uses` wac decodes
            let v = ctx.replay_input.clone().expect("input");
            let libs: Vec<(String, String)> = v["lib"].as_array().unwrap().iter().enumerate().map(|(i, t)| (format!("lib{i}"), t.as_str().unwrap().to_string())).collect();
            let b = witgen::build_component(&libs, v["world"].as_str().unwrap(), "w").expect("build");
            let mut types = wac_types::Types::default();
            let pkg = wac_types::Package::from_bytes("test:x", None, b.clone(), &mut types).expect("decode");
            let w = &types[pkg.ty()];
            for (dir, map) in [("import", &w.imports), ("export", &w.exports)] {
                for (n, k) in map {
                    if let wac_types::ItemKind::Instance(id) = k {
                        let i = &types[*id];
                        let uses: Vec<String> = i.uses.iter().map(|(l, u)| format!("{l} <- {}.{}", types[u.interface].id.clone().unwrap_or_default(), u.name.clone().unwrap_or_else(|| l.clone()))).collect();
                        println!("{dir} {n}: exports {:?} uses {uses:?}", i.exports.keys().collect::<Vec<_>>());
                    }
                }
            }
            if std::env::var("DUMP_WAT").is_ok() {
                println!("{}", wasmprinter::print_bytes(&b).unwrap());
            }
        }
        "debug-parse" => {
            // worker debug-parse --replay-input file.json  (json string = source text)
            let src = ctx.replay_input.as_ref().and_then(|v| v.as_str()).expect("json string").to_string();
            match wac_parser::Document::parse(&src) {
                Ok(d) => println!("{}", serde_json::to_string_pretty(&d).unwrap()),
                Err(e) => println!("ERR {e:?}"),
            }
        }
        "debug-witgen" => {
            let mut ok = 0;
            let mut bad = 0;
            for case in 0..ctx.n(50, 500) {
                let mut rng = ctx.rng(case);
                match witgen::gen_library(&mut rng, &witgen::LibOpts::default()) {
                    Ok(lib) => {
                        ok += 1;
                        if case == 0 {
                            println!("{}", witgen::library_text(&lib));
                        }
                    }
                    Err(e) => {
                        bad += 1;
                        if bad < 4 {
                            println!("case {case}: {e:#}");
                        }
                    }
                }
            }
            println!("ok={ok} bad={bad}");
        }
        other => {
            eprintln!("unknown property {other}");
            std::process::exit(2);
        }
    }
    ctx.finish();
}
