//! Small shared helpers: PRNG, hashing, panic capture.

use sha2::{Digest, Sha256};
use std::cell::RefCell;
use std::panic::{self, AssertUnwindSafe};

/// splitmix64-seeded xoshiro256** — deterministic, dependency-free.
#[derive(Clone, Debug)]
pub struct Rng {
    s: [u64; 4],
}

fn splitmix(x: &mut u64) -> u64 {
    *x = x.wrapping_add(0x9E3779B97F4A7C15);
    let mut z = *x;
    z = (z ^ (z >> 30)).wrapping_mul(0xBF58476D1CE4E5B9);
    z = (z ^ (z >> 27)).wrapping_mul(0x94D049BB133111EB);
    z ^ (z >> 31)
}

impl Rng {
    pub fn new(seed: u64) -> Self {
        let mut x = seed;
        let s = [
            splitmix(&mut x),
            splitmix(&mut x),
            splitmix(&mut x),
            splitmix(&mut x),
        ];
        Rng { s }
    }

    pub fn next_u64(&mut self) -> u64 {
        let result = self.s[1].wrapping_mul(5).rotate_left(7).wrapping_mul(9);
        let t = self.s[1] << 17;
        self.s[2] ^= self.s[0];
        self.s[3] ^= self.s[1];
        self.s[1] ^= self.s[2];
        self.s[0] ^= self.s[3];
        self.s[2] ^= t;
        self.s[3] = self.s[3].rotate_left(45);
        result
    }

    /// Uniform in `0..n` (n > 0).
    pub fn below(&mut self, n: usize) -> usize {
        assert!(n > 0);
        (self.next_u64() % n as u64) as usize
    }

    /// Inclusive range.
    pub fn range(&mut self, lo: usize, hi: usize) -> usize {
        lo + self.below(hi - lo + 1)
    }

    pub fn chance(&mut self, num: usize, den: usize) -> bool {
        self.below(den) < num
    }

    pub fn pick<'a, T>(&mut self, xs: &'a [T]) -> &'a T {
        &xs[self.below(xs.len())]
    }

    pub fn shuffle<T>(&mut self, xs: &mut [T]) {
        for i in (1..xs.len()).rev() {
            let j = self.below(i + 1);
            xs.swap(i, j);
        }
    }

    pub fn fork(&mut self) -> Rng {
        Rng::new(self.next_u64())
    }
}

pub fn fnv64(data: &[u8]) -> u64 {
    let mut h: u64 = 0xcbf29ce484222325;
    for b in data {
        h ^= *b as u64;
        h = h.wrapping_mul(0x100000001b3);
    }
    h
}

pub fn mix(a: u64, b: u64) -> u64 {
    let mut x = a ^ b.rotate_left(32) ^ 0x2545F4914F6CDD1D;
    splitmix(&mut x)
}

pub fn hash_str(s: &str) -> u64 {
    fnv64(s.as_bytes())
}

pub fn sha256_hex(data: &[u8]) -> String {
    let d = Sha256::digest(data);
    let mut s = String::with_capacity(64);
    for b in d {
        s.push_str(&format!("{b:02x}"));
    }
    s
}

#[derive(Debug, Clone)]
pub struct Panicked {
    pub message: String,
    pub location: String,
}

impl std::fmt::Display for Panicked {
    fn fmt(&self, f: &mut std::fmt::Formatter<'_>) -> std::fmt::Result {
        write!(f, "panic at {}: {}", self.location, self.message)
    }
}

thread_local! {
    static LAST_PANIC: RefCell<Option<Panicked>> = const { RefCell::new(None) };
    static CATCH_DEPTH: std::cell::Cell<u32> = const { std::cell::Cell::new(0) };
}

/// Installs a quiet panic hook that records message and location.
pub fn install_panic_hook() {
    panic::set_hook(Box::new(|info| {
        let message = if let Some(s) = info.payload().downcast_ref::<&str>() {
            s.to_string()
        } else if let Some(s) = info.payload().downcast_ref::<String>() {
            s.clone()
        } else {
            "<non-string panic payload>".to_string()
        };
        let location = info
            .location()
            .map(|l| format!("{}:{}", l.file(), l.line()))
            .unwrap_or_else(|| "<unknown>".into());
        if std::env::var_os("WACVERIF_BT").is_some() {
            eprintln!("panic at {location}: {message}\n{}", std::backtrace::Backtrace::force_capture());
        }
        if CATCH_DEPTH.with(|d| d.get()) == 0 {
            eprintln!("harness panic (outside any monitored call) at {location}: {message}");
        }
        LAST_PANIC.with(|p| *p.borrow_mut() = Some(Panicked { message, location }));
    }));
}

/// Runs `f`, turning a panic into `Err(Panicked)`.
pub fn catch<T>(f: impl FnOnce() -> T) -> Result<T, Panicked> {
    LAST_PANIC.with(|p| *p.borrow_mut() = None);
    CATCH_DEPTH.with(|d| d.set(d.get() + 1));
    let r = panic::catch_unwind(AssertUnwindSafe(f));
    CATCH_DEPTH.with(|d| d.set(d.get() - 1));
    match r {
        Ok(v) => Ok(v),
        Err(_) => Err(LAST_PANIC.with(|p| p.borrow_mut().take()).unwrap_or(Panicked {
            message: "<unknown>".into(),
            location: "<unknown>".into(),
        })),
    }
}

/// Strips the machine-specific prefix of a source location so signatures are stable.
pub fn short_location(loc: &str) -> String {
    let loc = loc.strip_prefix("/repo/").unwrap_or(loc);
    if let Some(i) = loc.find("/registry/src/") {
        let rest = &loc[i + "/registry/src/".len()..];
        if let Some(j) = rest.find('/') {
            return rest[j + 1..].to_string();
        }
    }
    loc.to_string()
}

/// Truncate long strings for event logs.
pub fn clip(s: &str, n: usize) -> String {
    if s.len() <= n {
        s.to_string()
    } else {
        let mut end = n;
        while !s.is_char_boundary(end) {
            end -= 1;
        }
        format!("{}…[{} bytes]", &s[..end], s.len())
    }
}

/// Normalises an error message into a stable signature fragment: offsets removed, quoted
/// names and numbers abstracted.
pub fn normalize_msg(msg: &str) -> String {
    // drop "(at offset 0x1f)" before abstracting digits
    let mut cleaned = String::new();
    let mut rest = msg;
    while let Some(i) = rest.find("(at offset 0x") {
        cleaned.push_str(&rest[..i]);
        match rest[i..].find(')') {
            Some(j) => rest = &rest[i + j + 1..],
            None => {
                rest = "";
            }
        }
    }
    cleaned.push_str(rest);
    let msg = cleaned.as_str();
    let mut s = String::new();
    let mut chars = msg.chars().peekable();
    let mut in_tick = false;
    let mut in_quote = false;
    while let Some(c) = chars.next() {
        if c == '`' {
            in_tick = !in_tick;
            if !in_tick {
                s.push('_');
            }
            continue;
        }
        if c == '"' {
            in_quote = !in_quote;
            if !in_quote {
                s.push('_');
            }
            continue;
        }
        if in_tick || in_quote {
            continue;
        }
        if c.is_ascii_digit() {
            if !s.ends_with('N') {
                s.push('N');
            }
            continue;
        }
        if c == '\n' {
            s.push(' ');
            continue;
        }
        s.push(c);
    }
    let s = s.replace(" (at offset 0xN)", "").replace("(at offset 0xN)", "");
    let s = s.split_whitespace().collect::<Vec<_>>().join(" ");
    clip(&s, 100)
}
