//! C11 — a `targets` verdict means the output really conforms to the world.
//!
//! Monitor: four-way agreement on generated (world, composition) pairs between (1) the
//! expectation the pair was constructed for, (2) `Document::resolve` on the document with its
//! `targets` clause, (3) `wac_types::validate_target` applied to the encoded output of the same
//! document without the clause, and (4) for resource-free worlds the reference validator's
//! component subtyping `output <: world`.

use crate::ctx::Ctx;
use crate::props::c15::model_compatible;
use crate::refval;
use crate::util::{catch, normalize_msg, Rng};
use crate::witgen::{self, Func, LibOpts, Names, Ty, WorldItem, WorldModel};
use indexmap::IndexMap;
use serde_json::json;
use wac_parser::Document;
use wac_types::{validate_target, BorrowedPackageKey, ItemKind, Package, Type, Types};

fn func(name: &str, variant: usize) -> Func {
    let sigs: [(Vec<(&str, Ty)>, Option<Ty>); 3] = [
        (vec![], None),
        (vec![("a", Ty::Prim("u8"))], Some(Ty::Prim("string"))),
        (vec![("a", Ty::Prim("string")), ("b", Ty::List(Box::new(Ty::Prim("u32"))))], None),
    ];
    let (p, r) = &sigs[variant % 3];
    Func { name: name.to_string(), params: p.iter().map(|(n, t)| (n.to_string(), t.clone())).collect(), result: r.clone() }
}

#[derive(Debug, Clone, Copy, PartialEq, Eq)]
enum Perturb {
    None,
    Superset,
    ImportRemoved,
    ExportAdded,
    ImportTypeChanged,
    ExportTypeChanged,
    VersionShift,
    /// the composition exports nothing at all although the target world has exports
    NothingExported,
}

#[derive(Debug, PartialEq, Eq, Clone)]
enum Verdict {
    Accept,
    ImportNotInTarget,
    MissingExport,
    Mismatch,
    Other(String),
}

fn class(v: &Verdict) -> &'static str {
    match v {
        Verdict::Accept => "accept",
        Verdict::ImportNotInTarget => "import-not-in-target",
        Verdict::MissingExport => "missing-export",
        Verdict::Mismatch => "type-mismatch",
        Verdict::Other(_) => "other",
    }
}

fn resolve_verdict(src: &str, pkgs: &[(String, Vec<u8>)]) -> Result<(Verdict, Option<Vec<u8>>), crate::util::Panicked> {
    catch(|| {
        let doc = match Document::parse(src) {
            Ok(d) => d,
            Err(e) => return (Verdict::Other(format!("parse: {e}")), None),
        };
        let mut map: IndexMap<BorrowedPackageKey, Vec<u8>> = IndexMap::new();
        for (n, b) in pkgs {
            map.insert(BorrowedPackageKey::from_name_and_version(n, None), b.clone());
        }
        match doc.resolve(map) {
            Ok(res) => {
                let bytes = res.encode(wac_graph::EncodeOptions { define_components: true, validate: false, processor: None }).ok();
                (Verdict::Accept, bytes)
            }
            Err(e) => {
                let d = format!("{e:?}");
                let v = if d.starts_with("ImportNotInTarget") {
                    Verdict::ImportNotInTarget
                } else if d.starts_with("MissingTargetExport") {
                    Verdict::MissingExport
                } else if d.starts_with("TargetMismatch") {
                    Verdict::Mismatch
                } else {
                    Verdict::Other(format!("{e}"))
                };
                (v, None)
            }
        }
    })
}

/// `validate_target` on (world package, encoded output), as the `wac targets` command does.
fn standalone_verdict(world_pkg: &[u8], output: &[u8]) -> Result<Verdict, String> {
    let mut types = Types::default();
    let wit = Package::from_bytes("wit", None, world_pkg.to_vec(), &mut types).map_err(|e| format!("{e:#}"))?;
    let comp = Package::from_bytes("component", None, output.to_vec(), &mut types).map_err(|e| format!("{e:#}"))?;
    let top = &types[wit.ty()];
    let Some(ItemKind::Type(Type::World(wid))) = top.exports.get("w") else { return Err("world export missing".into()) };
    let Some(ItemKind::Component(w)) = types[*wid].exports.values().next() else { return Err("world not encoded as expected".into()) };
    Ok(match validate_target(&types, *w, comp.ty()) {
        Ok(()) => Verdict::Accept,
        Err(report) => {
            if std::env::var("C11_DEBUG").is_ok() {
                eprintln!("validate_target report: {report}");
            }
            if report.imports_not_in_target().next().is_some() {
                Verdict::ImportNotInTarget
            } else if report.missing_exports().next().is_some() {
                Verdict::MissingExport
            } else {
                Verdict::Mismatch
            }
        }
    })
}

fn reference_verdict(world_pkg: &[u8], output: &[u8]) -> Result<bool, String> {
    let n = refval::nest(&[world_pkg, output])?;
    let e = n.export_of(0, "w").ok_or("no export w")?;
    let outer = n.component_type_of(&e).ok_or("export w is not a component type")?;
    let world_entity = *outer.exports.values().next().ok_or("world component type has no export")?;
    Ok(n.component_is_subtype_of(1, &world_entity))
}

/// Does `name` of interface `iface` denote a resource, directly or through `type a = b` aliases
/// and `use` edges?
fn names_a_resource(pkgs: &[witgen::Pkg], iface: &str, name: &str) -> bool {
    let (mut cur, mut cur_name) = (iface.to_string(), name.to_string());
    for _ in 0..20 {
        let Some(si) = witgen::find_iface(pkgs, &cur) else { return false };
        if let Some((_, def)) = si.types.iter().find(|(n, _)| *n == cur_name) {
            match def {
                witgen::TypeDef::Resource { .. } => return true,
                witgen::TypeDef::Alias(Ty::Named(n)) => cur_name = n.clone(),
                _ => return false,
            }
        } else if let Some(x) = si.uses.iter().find(|x| x.as_name.as_deref().unwrap_or(&x.name) == cur_name) {
            if x.is_resource {
                return true;
            }
            cur = x.source_id.clone();
            cur_name = x.name.clone();
        } else {
            return false;
        }
    }
    false
}

/// Second workload: two instantiations implicitly import the same plain name with different,
/// mergeable instance types; the target world offers the union, or only what one of them needs.
/// The merged import of the output needs the union, so anything less must be rejected whatever the
/// order of the two `let` statements.
fn merged_import_case(ctx: &mut Ctx, case: u64, rng: &mut Rng) {
    let f = |n: &str| Func { name: n.to_string(), params: vec![], result: None };
    let shared = |names: &[&str]| WorldItem::Inline { name: "shared".into(), iface: witgen::Iface { name: "shared".into(), uses: vec![], types: vec![], funcs: names.iter().map(|n| f(n)).collect() } };
    let all = ["s0", "s1", "s2"];
    let a: Vec<&str> = all.iter().copied().filter(|_| rng.chance(1, 2)).collect();
    let b: Vec<&str> = all.iter().copied().filter(|_| rng.chance(1, 2)).collect();
    if a.is_empty() || b.is_empty() {
        return;
    }
    let mut union: Vec<&str> = a.clone();
    for x in &b {
        if !union.contains(x) {
            union.push(x);
        }
    }
    let offered: Vec<&str> = match rng.below(4) {
        0 => union.clone(),
        1 => a.clone(),
        2 => b.clone(),
        _ => all.to_vec(),
    };
    let conforms = union.iter().all(|x| offered.contains(x));
    let c0w = WorldModel { pkg: "test:c0".into(), world: "w".into(), imports: vec![shared(&a)], exports: vec![WorldItem::Func { name: "fx".into(), func: func("fx", 0) }] };
    let c1w = WorldModel { pkg: "test:c1".into(), world: "w".into(), imports: vec![shared(&b)], exports: vec![WorldItem::Func { name: "fz".into(), func: func("fz", 0) }] };
    let tw = WorldModel { pkg: "test:tgt".into(), world: "w".into(), imports: vec![shared(&offered)], exports: vec![WorldItem::Func { name: "fx".into(), func: func("fx", 0) }] };
    let build = |w: &WorldModel| catch(|| witgen::build_component(&[], &witgen::print_world_pkg(w), "w")).ok().and_then(|r| r.ok());
    let (Some(c0), Some(c1)) = (build(&c0w), build(&c1w)) else {
        ctx.count("gen-fail");
        return;
    };
    let world_text = witgen::print_world_pkg(&tw);
    let Some(world_pkg) = catch(|| witgen::encode_wit_package(&[], &world_text)).ok().and_then(|r| r.ok()) else {
        ctx.count("gen-fail");
        return;
    };
    let first_c0 = rng.chance(1, 2);
    let lets = if first_c0 { "let i = new test:c0 { ... };\nlet j = new test:c1 { ... };\n" } else { "let j = new test:c1 { ... };\nlet i = new test:c0 { ... };\n" };
    let body = format!("{lets}export i[\"fx\"];\n");
    let with_target = format!("package test:comp targets test:tgt/w;\n{body}");
    let without_target = format!("package test:comp;\n{body}");
    let input = json!({"c0": witgen::print_world_pkg(&c0w), "c1": witgen::print_world_pkg(&c1w), "target": world_text, "document": with_target});
    let packages = vec![("test:c0".to_string(), c0), ("test:c1".to_string(), c1), ("test:tgt".to_string(), world_pkg.clone())];
    ctx.eval();
    let Ok((v_resolve, _)) = resolve_verdict(&with_target, &packages) else {
        ctx.count("pipeline-panic-skipped");
        return;
    };
    let output = match resolve_verdict(&without_target, &packages[..2]) {
        Ok((Verdict::Accept, Some(b))) => b,
        _ => {
            ctx.count("composition-without-target-does-not-encode");
            return;
        }
    };
    let v_standalone = match catch(|| standalone_verdict(&world_pkg, &output)) {
        Ok(Ok(v)) => v,
        _ => {
            ctx.count("standalone-setup-error");
            return;
        }
    };
    let v_ref = reference_verdict(&world_pkg, &output).ok();
    ctx.count(if conforms { "merged-import:world-offers-the-union" } else { "merged-import:world-offers-less-than-the-union" });
    let want_accept = conforms;
    if (v_resolve == Verdict::Accept) != want_accept {
        ctx.violation(case, &format!("C11:merged-import:resolve-verdict:{}-vs-expected-{}", class(&v_resolve), if want_accept { "accept" } else { "reject" }), format!("two instantiations need {a:?} and {b:?} of import `shared`, the world offers {offered:?}; Document::resolve -> {v_resolve:?}"), input.clone());
    }
    if (v_standalone == Verdict::Accept) != want_accept {
        ctx.violation(case, &format!("C11:merged-import:standalone-verdict:{}-vs-expected-{}", class(&v_standalone), if want_accept { "accept" } else { "reject" }), format!("needs {a:?} and {b:?}, world offers {offered:?}; validate_target -> {v_standalone:?}"), input.clone());
    }
    if let Some(r) = v_ref {
        if r != want_accept {
            ctx.violation(case, &format!("C11:merged-import:reference-verdict:{r}-vs-expected-{want_accept}"), format!("needs {a:?} and {b:?}, world offers {offered:?}; wasmparser `output <: world` = {r}"), input.clone());
        }
    }
    ctx.shape_str(&format!("merged|{a:?}|{b:?}|{offered:?}|{first_c0}"));
}

/// Third workload: the world requires a function / instance export, and the document only
/// DEFINES a type of that name (`type fx = func(..);`, `interface inl {..}`), or really exports the
/// item, or both. A type definition is exported as a type: it never satisfies the world.
fn type_shadow_case(ctx: &mut Ctx, case: u64, rng: &mut Rng) {
    let want_func = rng.chance(1, 2);
    let want_inst = !want_func || rng.chance(1, 2);
    let mut world = String::from("package test:tgt;\n\nworld w {\n");
    if want_func {
        world.push_str("    export fx: func(a: u8) -> string;\n");
    }
    if want_inst {
        world.push_str("    export inl: interface {\n        f: func();\n    }\n");
    }
    world.push_str("}\n");
    // the component really provides both
    let comp_world = "package test:c0;\n\nworld w {\n    export fx: func(a: u8) -> string;\n    export inl: interface {\n        f: func();\n    }\n}\n";
    let (Some(c0), Some(world_pkg)) = (
        catch(|| witgen::build_component(&[], comp_world, "w")).ok().and_then(|r| r.ok()),
        catch(|| witgen::encode_wit_package(&[], &world)).ok().and_then(|r| r.ok()),
    ) else {
        ctx.count("gen-fail");
        return;
    };
    // per required export: 0 = really exported, 1 = only a type of that name is defined
    let fx_mode = rng.below(2);
    let inl_mode = rng.below(2);
    let mut body = String::from("let i = new test:c0 { ... };\n");
    let mut conforms = true;
    if want_func {
        if fx_mode == 0 {
            body.push_str("export i[\"fx\"];\n");
        } else {
            body.push_str("type fx = func(a: u8) -> string;\n");
            conforms = false;
        }
    }
    if want_inst {
        if inl_mode == 0 {
            body.push_str("export i[\"inl\"];\n");
        } else {
            body.push_str("interface inl {\n    f: func();\n}\n");
            conforms = false;
        }
    }
    let with_target = format!("package test:comp targets test:tgt/w;\n{body}");
    let without_target = format!("package test:comp;\n{body}");
    let input = json!({"target": world, "document": with_target});
    let packages = vec![("test:c0".to_string(), c0), ("test:tgt".to_string(), world_pkg.clone())];
    ctx.eval();
    let Ok((v_resolve, _)) = resolve_verdict(&with_target, &packages) else {
        ctx.count("pipeline-panic-skipped");
        return;
    };
    ctx.count(if conforms { "type-shadow:really-exported" } else { "type-shadow:only-a-type-of-that-name" });
    if (v_resolve == Verdict::Accept) != conforms {
        ctx.violation(case, &format!("C11:type-shadow:resolve-verdict:{}-vs-expected-{}", class(&v_resolve), if conforms { "accept" } else { "reject" }), format!("Document::resolve -> {v_resolve:?}"), input.clone());
    }
    if let Ok((Verdict::Accept, Some(output))) = resolve_verdict(&without_target, &packages[..1]) {
        if let Ok(Ok(v)) = catch(|| standalone_verdict(&world_pkg, &output)) {
            if (v == Verdict::Accept) != conforms {
                ctx.violation(case, &format!("C11:type-shadow:standalone-verdict:{}-vs-expected-{}", class(&v), if conforms { "accept" } else { "reject" }), format!("validate_target -> {v:?}"), input.clone());
            }
        }
        if let Ok(r) = reference_verdict(&world_pkg, &output) {
            if r != conforms {
                ctx.violation(case, &format!("C11:type-shadow:reference-verdict:{r}-vs-expected-{conforms}"), format!("wasmparser `output <: world` = {r}"), input.clone());
            }
        }
    } else {
        ctx.count("composition-without-target-does-not-encode");
    }
    ctx.shape_str(&format!("shadow|{want_func}|{want_inst}|{fx_mode}|{inl_mode}"));
}

/// Fourth workload: the world and the component agree on everything except, sometimes, the KIND of
/// a resource handle (`borrow<r>` against an owned `r`) in a parameter, a result or inside a list.
fn handle_kind_case(ctx: &mut Ctx, case: u64, rng: &mut Rng) {
    let shapes = ["consume: func(x: {H});", "consume: func(x: list<{H}>);", "consume: func(a: u8, x: {H}) -> u8;"];
    let shape = *rng.pick(&shapes);
    let dir = if rng.chance(1, 2) { "import" } else { "export" };
    let comp_h = if rng.chance(1, 2) { "borrow<r>" } else { "r" };
    let world_h = if rng.chance(1, 2) { comp_h } else if comp_h == "r" { "borrow<r>" } else { "r" };
    let conforms = comp_h == world_h;
    let w = |pkg: &str, h: &str| format!("package {pkg};\n\nworld w {{\n    {dir} h: interface {{\n        resource r;\n        {}\n    }}\n    export fx: func();\n}}\n", shape.replace("{H}", h));
    let (Some(c0), Some(world_pkg)) = (
        catch(|| witgen::build_component(&[], &w("test:c0", comp_h), "w")).ok().and_then(|r| r.ok()),
        catch(|| witgen::encode_wit_package(&[], &w("test:tgt", world_h))).ok().and_then(|r| r.ok()),
    ) else {
        ctx.count("gen-fail");
        return;
    };
    let body = if dir == "export" { "let i = new test:c0 { ... };\nexport i[\"h\"];\nexport i[\"fx\"];\n" } else { "let i = new test:c0 { ... };\nexport i[\"fx\"];\n" };
    let with_target = format!("package test:comp targets test:tgt/w;\n{body}");
    let without_target = format!("package test:comp;\n{body}");
    let input = json!({"component": w("test:c0", comp_h), "target": w("test:tgt", world_h), "document": with_target});
    let packages = vec![("test:c0".to_string(), c0), ("test:tgt".to_string(), world_pkg.clone())];
    ctx.eval();
    let Ok((v_resolve, _)) = resolve_verdict(&with_target, &packages) else {
        ctx.count("pipeline-panic-skipped");
        return;
    };
    ctx.count(if conforms { "handle-kind:same" } else { "handle-kind:differs" });
    if (v_resolve == Verdict::Accept) != conforms {
        ctx.violation(case, &format!("C11:handle-kind:resolve-verdict:{}-vs-expected-{}", class(&v_resolve), if conforms { "accept" } else { "reject" }), format!("component has `{comp_h}`, world has `{world_h}` ({dir}); Document::resolve -> {v_resolve:?}"), input.clone());
    }
    if let Ok((Verdict::Accept, Some(output))) = resolve_verdict(&without_target, &packages[..1]) {
        if let Ok(Ok(v)) = catch(|| standalone_verdict(&world_pkg, &output)) {
            if (v == Verdict::Accept) != conforms {
                ctx.violation(case, &format!("C11:handle-kind:standalone-verdict:{}-vs-expected-{}", class(&v), if conforms { "accept" } else { "reject" }), format!("component has `{comp_h}`, world has `{world_h}` ({dir}); validate_target -> {v:?}"), input.clone());
            }
        }
        if let Ok(r) = reference_verdict(&world_pkg, &output) {
            if r != conforms {
                ctx.violation(case, &format!("C11:handle-kind:reference-verdict:{r}-vs-expected-{conforms}"), format!("wasmparser `output <: world` = {r}"), input.clone());
            }
        }
    }
    ctx.shape_str(&format!("handle|{shape}|{dir}|{comp_h}|{world_h}"));
}

pub fn run(ctx: &mut Ctx) {
    let total = ctx.n(15_000, 6_000_000);
    // directed witness of the recorded finding (resource of an interface that the world both imports,
    // as a dependency, and exports), then the random pairs
    let witness = crate::witness::WITNESS_BASE;
    let mut cases: Vec<u64> = [witness, witness + 1, witness + 2].into_iter().filter(|c| ctx.mine(*c)).collect();
    cases.extend(ctx.cases(total));
    for case in cases {
        if ctx.out_of_budget() {
            ctx.count("budget-stop");
            break;
        }
        ctx.begin(case);
        let fixed = case >= witness && case <= witness + 2;
        if !fixed && case % 5 == 4 {
            let mut rng = ctx.rng(case);
            merged_import_case(ctx, case, &mut rng);
            continue;
        }
        if !fixed && case % 10 == 7 {
            let mut rng = ctx.rng(case);
            handle_kind_case(ctx, case, &mut rng);
            continue;
        }
        if !fixed && case % 10 == 3 {
            let mut rng = ctx.rng(case);
            type_shadow_case(ctx, case, &mut rng);
            continue;
        }
        let fixed_b = case == witness + 1;
        let fixed_c = case == witness + 2;
        let mut rng = ctx.rng(case);
        let mut names = Names::new();
        let mut lo = LibOpts::default();
        lo.n_ifaces = rng.range(2, 4);
        lo.versions = rng.chance(1, 2);
        lo.iface.resources = rng.chance(1, 4) || fixed;
        let with_resources = lo.iface.resources;
        lo.iface.max_types = 2;
        const WITNESS_LIB: &str = "package ns:lib;\n\ninterface i0 {\n    resource r;\n}\n\ninterface i2 {\n    use i0.{r};\n    f: func() -> r;\n}\n\ninterface i3 {\n    use i2.{r};\n    g: func(x: borrow<r>);\n}\n";
        const WITNESS_LIB_B1: &str = "package ns:lib@2.0.1;\n\ninterface i0 {\n    resource r;\n}\n\ninterface i1 {\n    use i0.{r};\n    f: func() -> r;\n}\n";
        const WITNESS_LIB_B2: &str = "package ns:lib@2.1.0;\n\ninterface i0 {\n    resource r;\n}\n";
        const WITNESS_LIB_C: &str = "package ns:lib;\n\ninterface i0 {\n    resource r;\n}\n\ninterface i2 {\n    use i0.{r as q};\n    f: func() -> q;\n}\n";
        let fixed_texts: Vec<&str> = if fixed_b { vec![WITNESS_LIB_B1, WITNESS_LIB_B2] } else if fixed_c { vec![WITNESS_LIB_C] } else { vec![WITNESS_LIB] };
        let pkgs = if fixed { fixed_texts.iter().map(|t| crate::witness::model_of_pub(t)).collect() } else { witgen::gen_pkgs(&mut rng, &lo, &mut names) };
        let pkg_texts: Vec<(String, String)> = if fixed { fixed_texts.iter().enumerate().map(|(i, t)| (format!("lib{i}"), t.to_string())).collect() } else { pkgs.iter().enumerate().map(|(i, p)| (format!("lib{i}"), witgen::print_pkg(p))).collect() };
        let ids: Vec<String> = pkgs.iter().flat_map(|p| p.ifaces.iter().map(move |i| p.iface_id(&i.name))).collect();
        // the component under composition
        let mut imports: Vec<WorldItem> = Vec::new();
        let mut exports: Vec<WorldItem> = Vec::new();
        let mut shuffled = ids.clone();
        rng.shuffle(&mut shuffled);
        if fixed_b {
            imports.push(WorldItem::Iface { id: "ns:lib/i1@2.0.1".into() });
            imports.push(WorldItem::Iface { id: "ns:lib/i0@2.1.0".into() });
            shuffled.clear();
        } else if fixed_c {
            exports.push(WorldItem::Iface { id: "ns:lib/i2".into() });
            exports.push(WorldItem::Iface { id: "ns:lib/i0".into() });
            shuffled.clear();
        } else if fixed {
            imports.push(WorldItem::Iface { id: "ns:lib/i3".into() });
            exports.push(WorldItem::Iface { id: "ns:lib/i2".into() });
            exports.push(WorldItem::Iface { id: "ns:lib/i0".into() });
            shuffled.clear();
        }
        for id in shuffled.iter().take(rng.range(0, 2)) {
            if !imports.iter().any(|i| model_compatible(i.extern_name(), id)) {
                imports.push(WorldItem::Iface { id: id.clone() });
            }
        }
        for id in shuffled.iter().rev().take(rng.range(0, 2)) {
            if !imports.iter().chain(exports.iter()).any(|i| i.extern_name() == id || model_compatible(i.extern_name(), id)) {
                exports.push(WorldItem::Iface { id: id.clone() });
            }
        }
        let fa = rng.below(3);
        let fx = rng.below(3);
        imports.push(WorldItem::Func { name: "fa".into(), func: func("fa", fa) });
        if rng.chance(1, 2) {
            imports.push(WorldItem::Func { name: "fb".into(), func: func("fb", rng.below(3)) });
        }
        exports.push(WorldItem::Func { name: "fx".into(), func: func("fx", fx) });
        if rng.chance(1, 2) {
            exports.push(WorldItem::Func { name: "fy".into(), func: func("fy", rng.below(3)) });
        }
        let comp_world = WorldModel { pkg: "test:c0".into(), world: "w".into(), imports: imports.clone(), exports: exports.clone() };
        let Some(comp) = catch(|| witgen::build_component(&pkg_texts, &witgen::print_world_pkg(&comp_world), "w")).ok().and_then(|r| r.ok()) else {
            ctx.count("gen-fail");
            continue;
        };
        // the target world
        let mut perturb = *rng.pick(&[
            Perturb::None, Perturb::None, Perturb::Superset, Perturb::ImportRemoved, Perturb::ExportAdded, Perturb::ImportTypeChanged,
            Perturb::ExportTypeChanged, Perturb::VersionShift,
        ]);
        if fixed {
            perturb = Perturb::None;
        }
        let mut wi = imports.clone();
        let mut we = exports.clone();
        let mut effective = perturb;
        match perturb {
            Perturb::None | Perturb::NothingExported => {}
            Perturb::Superset => {
                wi.push(WorldItem::Func { name: "extra-import".into(), func: func("extra-import", 1) });
                if let Some(id) = ids.iter().find(|id| !wi.iter().chain(we.iter()).any(|i| i.extern_name() == *id || model_compatible(i.extern_name(), id))) {
                    wi.push(WorldItem::Iface { id: id.clone() });
                }
                if we.len() > 1 {
                    we.pop();
                }
            }
            Perturb::ImportRemoved => {
                wi.retain(|i| i.extern_name() != "fa");
            }
            Perturb::ExportAdded => we.push(WorldItem::Func { name: "pz".into(), func: func("pz", 0) }),
            Perturb::ImportTypeChanged => {
                for i in wi.iter_mut() {
                    if let WorldItem::Func { name, func: f } = i {
                        if name == "fa" {
                            *f = func("fa", fa + 1);
                        }
                    }
                }
            }
            Perturb::ExportTypeChanged => {
                for e in we.iter_mut() {
                    if let WorldItem::Func { name, func: f } = e {
                        if name == "fx" {
                            *f = func("fx", fx + 1);
                        }
                    }
                }
            }
            Perturb::VersionShift => {
                // the world imports a later version of an interface the component imports
                let mut shifted = false;
                for i in wi.iter_mut() {
                    if let WorldItem::Iface { id } = i {
                        if let Some(other) = ids.iter().find(|o| *o != id && model_compatible(o, id)) {
                            *id = other.clone();
                            shifted = true;
                            break;
                        }
                    }
                }
                if !shifted {
                    effective = Perturb::None;
                }
            }
        }
        // a composition that only imports: every export of the world is missing
        let export_nothing = !fixed && matches!(effective, Perturb::None | Perturb::Superset | Perturb::ExportAdded) && rng.chance(1, 8);
        if export_nothing {
            effective = Perturb::NothingExported;
        }
        let world = WorldModel { pkg: "test:tgt".into(), world: "w".into(), imports: wi, exports: we };
        let world_text = witgen::print_world_pkg(&world);
        let Some(world_pkg) = catch(|| witgen::encode_wit_package(&pkg_texts, &world_text)).ok().and_then(|r| r.ok()) else {
            ctx.count("gen-fail");
            continue;
        };
        let body = if export_nothing {
            "let i = new test:c0 { ... };\n".to_string()
        } else if rng.chance(1, 2) && !fixed {
            "let i = new test:c0 { ... };\nexport i...;\n".to_string()
        } else {
            let mut s = String::from("let i = new test:c0 { ... };\n");
            for e in &exports {
                s.push_str(&format!("export i[\"{}\"];\n", e.extern_name()));
            }
            s
        };
        let with_target = format!("package test:comp targets test:tgt/w;\n{body}");
        let without_target = format!("package test:comp;\n{body}");
        let input = json!({"library": pkg_texts.iter().map(|t| t.1.clone()).collect::<Vec<_>>(), "component": witgen::print_world_pkg(&comp_world), "target": world_text, "document": with_target, "perturbation": format!("{effective:?}")});
        let packages = vec![("test:c0".to_string(), comp.clone()), ("test:tgt".to_string(), world_pkg.clone())];
        ctx.eval();
        let (v_resolve, _) = match resolve_verdict(&with_target, &packages) {
            Ok(v) => v,
            Err(p) => {
                ctx.violation(case, &format!("C11:resolve-panic:{}", normalize_msg(&p.message)), p.to_string(), input);
                continue;
            }
        };
        let output = match resolve_verdict(&without_target, &packages[..1]) {
            Ok((Verdict::Accept, Some(b))) => b,
            other => {
                ctx.count("composition-without-target-does-not-encode");
                ctx.note("last_plain_failure", json!(format!("{:?}", other.map(|o| o.0))));
                continue;
            }
        };
        let v_standalone = match catch(|| standalone_verdict(&world_pkg, &output)) {
            Ok(Ok(v)) => v,
            Ok(Err(e)) => {
                ctx.count("standalone-setup-error");
                ctx.note("last_standalone_error", json!(e));
                continue;
            }
            Err(p) => {
                ctx.violation(case, &format!("C11:validate-target-panic:{}", normalize_msg(&p.message)), p.to_string(), input);
                continue;
            }
        };
        let v_ref = reference_verdict(&world_pkg, &output).ok();
        // Recorded finding: wac's checker identifies resources by name, not by identity. Where the
        // world both imports (possibly as a dependency of an imported interface) and exports an
        // interface that defines or passes on a resource, the imported and the exported resource
        // are different types with the same name, and the two wac checks (which see the same
        // composition through different representations) disagree with each other or with the
        // reference.
        let zone = with_resources && {
            let imported: Vec<String> = world.imports.iter().filter(|i| i.is_instance()).flat_map(|i| {
                let mut v = witgen::use_closure(&pkgs, i.extern_name());
                v.push(i.extern_name().to_string());
                v
            }).collect();
            world.exports.iter().filter(|e| e.is_instance()).any(|e| {
                let mut v = witgen::use_closure(&pkgs, e.extern_name());
                v.push(e.extern_name().to_string());
                v.iter().any(|x| imported.contains(x))
            })
        };
        // ... and the same for two compatible versions of an interface with a resource that the world
        // imports side by side (one of them usually as a dependency): wac merges them onto one import
        let zone_b = with_resources && {
            let all: Vec<String> = world.imports.iter().chain(world.exports.iter()).filter(|i| i.is_instance()).flat_map(|i| {
                let mut v = witgen::use_closure(&pkgs, i.extern_name());
                v.push(i.extern_name().to_string());
                v
            }).collect();
            all.iter().any(|a| all.iter().any(|b| a != b && model_compatible(a, b)))
        };
        // ... and for an exported interface that `use`s a resource of another interface: in the output
        // the resource is named after whichever export comes first
        let zone_c = with_resources && world.exports.iter().filter(|e| e.is_instance()).any(|e| {
            witgen::find_iface(&pkgs, e.extern_name()).map_or(false, |i| i.uses.iter().any(|u| u.is_resource || names_a_resource(&pkgs, &u.source_id, &u.name)))
        });
        let zsuf = if zone {
            ":interface-with-a-resource-both-imported-and-exported"
        } else if zone_b {
            ":resource-interface-at-two-compatible-versions"
        } else if zone_c {
            ":exported-interface-uses-a-resource-of-another-interface"
        } else {
            ""
        };
        let zone = zone || zone_b || zone_c;
        ctx.count(&format!("pair:{effective:?}"));
        ctx.count(&format!("resolve:{}", class(&v_resolve)));
        let want = match effective {
            Perturb::None | Perturb::Superset => Some(Verdict::Accept),
            Perturb::ImportRemoved => Some(Verdict::ImportNotInTarget),
            Perturb::ExportAdded | Perturb::NothingExported => Some(Verdict::MissingExport),
            Perturb::ImportTypeChanged | Perturb::ExportTypeChanged => Some(Verdict::Mismatch),
            Perturb::VersionShift => None,
        };
        // inside a zone the perturbation is irrelevant to the signature: the finding is the zone
        let p = format!("{effective:?}");
        // inside a zone every disagreement is one finding per zone, whatever the verdict combination
        let zsig = format!("C11:target-checks-disagree-on-resource-identity{zsuf}");
        let sig_of = |generic: String| if zone { zsig.clone() } else { generic };
        // the expectation a pair was constructed for presupposes that a component conforms to the
        // world it was built from; wit-component's world encoding and component encoding route the
        // `use` of an exported interface differently in the zone above, so there the reference decides
        let want = if zone && matches!(effective, Perturb::None | Perturb::Superset) && (v_ref == Some(false) || v_standalone != Verdict::Accept) {
            ctx.count("expectation-dropped:reference-says-the-component-does-not-conform-to-its-own-world");
            None
        } else {
            want
        };
        if let Some(w) = &want {
            if v_resolve != *w {
                ctx.violation(case, &sig_of(format!("C11:resolve-verdict:{p}:{}-vs-expected-{}", class(&v_resolve), class(w))), format!("Document::resolve -> {v_resolve:?}, the pair was constructed for {w:?}"), input.clone());
            }
            if v_standalone != *w {
                ctx.violation(case, &sig_of(format!("C11:standalone-verdict:{p}:{}-vs-expected-{}", class(&v_standalone), class(w))), format!("validate_target -> {v_standalone:?}, the pair was constructed for {w:?}"), input.clone());
            }
        }
        if (v_resolve == Verdict::Accept) != (v_standalone == Verdict::Accept) {
            if std::env::var("C11_DEBUG").is_ok() {
                std::fs::write("/tmp/c11_output.wat", wasmprinter::print_bytes(&output).unwrap_or_default()).ok();
                std::fs::write("/tmp/c11_world.wat", wasmprinter::print_bytes(&world_pkg).unwrap_or_default()).ok();
            }
            // for the report only: what the reference validator says about `output <: world`
            let r = reference_verdict(&world_pkg, &output);
            ctx.violation(case, &sig_of(format!("C11:resolution-and-standalone-check-disagree:{p}:{}-vs-{}", class(&v_resolve), class(&v_standalone))), format!("resolve -> {v_resolve:?}, validate_target on the encoded output -> {v_standalone:?}; wasmparser `output <: world` = {r:?}; output:\n{}", wasmprinter::print_bytes(&output).unwrap_or_default()), input.clone());
        }
        if let Some(r) = v_ref {
            ctx.count(if r { "reference:subtype" } else { "reference:not-subtype" });
            if r != (v_standalone == Verdict::Accept) {
                ctx.violation(case, &sig_of(format!("C11:standalone-check-and-reference-disagree:{p}:standalone={}:reference={r}", class(&v_standalone))), format!("validate_target -> {v_standalone:?}, wasmparser `output <: world` = {r}"), input.clone());
            }
            if r != (v_resolve == Verdict::Accept) {
                ctx.violation(case, &sig_of(format!("C11:resolution-and-reference-disagree:{p}:resolve={}:reference={r}", class(&v_resolve))), format!("resolve -> {v_resolve:?}, wasmparser `output <: world` = {r}"), input.clone());
            }
        }
        ctx.shape_str(&format!("{p}|{}|{}", witgen::print_world_pkg(&comp_world).chars().filter(|c| !c.is_ascii_digit()).collect::<String>(), body.len()));
        if ctx.samples.len() < 2 {
            ctx.sample(json!({"case": case, "target": input["target"], "document": input["document"], "verdicts": format!("resolve={v_resolve:?} standalone={v_standalone:?} reference={v_ref:?}")}));
        }
    }
    let _: Option<Rng> = None;
}
