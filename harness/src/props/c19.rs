//! C19 — the CLI does what the library does with the flags as documented.
//!
//! Monitor: the `wac` binary built from /repo is run as a child process (cwd and HOME inside a
//! scratch directory, no network) on generated inputs under every combination of its documented
//! flags; exit status, stdout, stderr and the output file are compared with the in-process
//! library pipeline on the same inputs.

use crate::ctx::Ctx;
use crate::props::c17;
use crate::util::{catch, clip, normalize_msg, Rng};
use crate::witgen;
use serde_json::json;
use std::collections::HashMap;
use std::io::Read;
use std::path::{Path, PathBuf};
use std::process::{Command, Stdio};
use std::time::{Duration, Instant};
use wac_graph::{CompositionGraph, EncodeOptions};
use wac_parser::Document;
use wac_types::Package;

pub struct CliOut {
    pub code: Option<i32>,
    pub stdout: Vec<u8>,
    pub stderr: String,
    pub timed_out: bool,
}

fn cli_path() -> Option<PathBuf> {
    std::env::var_os("WACVERIF_CLI").map(PathBuf::from).filter(|p| p.is_file())
}

pub fn run_cli(bin: &Path, dir: &Path, args: &[String]) -> CliOut {
    let mut child = match Command::new(bin)
        .args(args)
        .current_dir(dir)
        .env_clear()
        .env("HOME", dir)
        .env("PATH", "/usr/bin:/bin")
        .env("NO_COLOR", "1")
        .env("RUST_BACKTRACE", "0")
        .stdin(Stdio::null())
        .stdout(Stdio::piped())
        .stderr(Stdio::piped())
        .spawn()
    {
        Ok(c) => c,
        Err(e) => return CliOut { code: None, stdout: vec![], stderr: format!("spawn failed: {e}"), timed_out: true },
    };
    let mut so = child.stdout.take().unwrap();
    let mut se = child.stderr.take().unwrap();
    let t_out = std::thread::spawn(move || {
        let mut v = Vec::new();
        let _ = so.read_to_end(&mut v);
        v
    });
    let t_err = std::thread::spawn(move || {
        let mut v = Vec::new();
        let _ = se.read_to_end(&mut v);
        v
    });
    let start = Instant::now();
    let mut timed_out = false;
    let code = loop {
        match child.try_wait() {
            Ok(Some(st)) => break st.code(),
            Ok(None) => {
                if start.elapsed() > Duration::from_secs(60) {
                    let _ = child.kill();
                    let _ = child.wait();
                    timed_out = true;
                    break None;
                }
                std::thread::sleep(Duration::from_millis(1));
            }
            Err(_) => break None,
        }
    };
    let stdout = t_out.join().unwrap_or_default();
    let stderr = String::from_utf8_lossy(&t_err.join().unwrap_or_default()).to_string();
    CliOut { code, stdout, stderr, timed_out }
}

// ---------------------------------------------------------------------------------------------
// compose

const RES_LIB: &str = "package ns:res;\n\ninterface i0 {\n    resource r;\n    f: func() -> r;\n}\n\ninterface i1 {\n    use i0.{r};\n    g: func(a: r);\n}\n";

fn extra_packages() -> Result<Vec<((String, Option<String>), Vec<u8>)>, String> {
    let libt = vec![("res".to_string(), RES_LIB.to_string())];
    let mut v = Vec::new();
    for (name, world) in [
        ("test:rb", "package test:rb;\nworld w { export ns:res/i0; }\n"),
        ("test:ra", "package test:ra;\nworld w { import ns:res/i0; export ns:res/i1; }\n"),
        ("test:rc", "package test:rc;\nworld w { import ns:res/i0; import ns:res/i1; export run: func(); }\n"),
    ] {
        let b = witgen::build_component(&libt, world, "w").map_err(|e| format!("{e:#}"))?;
        v.push(((name.to_string(), None), b));
    }
    Ok(v)
}

/// A fragment that resolves and encodes but fails validation (recorded finding of C01: arguments
/// from two providers of one resource).
const INVALID_FRAGMENT: &str = "let vb1 = new test:rb {};\nlet vb2 = new test:rb {};\nlet va = new test:ra { \"ns:res/i0\": vb2[\"ns:res/i0\"] };\nlet vc = new test:rc { \"ns:res/i0\": vb1[\"ns:res/i0\"], \"ns:res/i1\": va[\"ns:res/i1\"] };\nexport vc.run;\n";

struct Layout {
    /// `--deps-dir` value, if any (default `deps`)
    deps_flag: Option<String>,
    deps_dir: PathBuf,
    overrides: Vec<(String, PathBuf)>,
}

/// Writes the packages into the scratch directory and returns the layout.
fn write_layout(rng: &mut Rng, dir: &Path, pkgs: &[((String, Option<String>), Vec<u8>)], wanted: &dyn Fn(&(String, Option<String>)) -> bool) -> std::io::Result<Layout> {
    let deps_flag = if rng.chance(1, 2) { Some("my-deps".to_string()) } else { None };
    let deps_dir = dir.join(deps_flag.as_deref().unwrap_or("deps"));
    std::fs::create_dir_all(&deps_dir)?;
    let mut overrides = Vec::new();
    let versioned_names: Vec<&String> = pkgs.iter().filter(|(k, _)| k.1.is_some() && wanted(k)).map(|(k, _)| &k.0).collect();
    for (k, bytes) in pkgs {
        if !wanted(k) {
            continue;
        }
        let (ns, name) = k.0.split_once(':').unwrap();
        match &k.1 {
            Some(v) => {
                let d = deps_dir.join(ns).join(name);
                std::fs::create_dir_all(&d)?;
                std::fs::write(d.join(format!("{v}.wasm")), bytes)?;
            }
            None => {
                // a directory `<deps>/<ns>/<name>/` (holding versions) shadows `<name>.wasm`:
                // such unversioned packages are supplied with --dep
                if versioned_names.contains(&&k.0) || rng.chance(1, 3) {
                    // one override path in three has an `=` in it (`--dep PKG=PATH` splits at the first `=`)
                    let sub = if rng.chance(1, 3) { "build=release" } else { "local" };
                    let p = dir.join(sub).join(format!("{ns}-{name}.wasm"));
                    std::fs::create_dir_all(p.parent().unwrap())?;
                    std::fs::write(&p, bytes)?;
                    overrides.push((k.0.clone(), PathBuf::from(sub).join(format!("{ns}-{name}.wasm"))));
                } else {
                    let d = deps_dir.join(ns);
                    std::fs::create_dir_all(&d)?;
                    std::fs::write(d.join(format!("{name}.wasm")), bytes)?;
                }
            }
        }
    }
    Ok(Layout { deps_flag, deps_dir, overrides })
}

#[derive(Debug, Clone, PartialEq)]
enum LibOutcome {
    Ok(Vec<u8>),
    /// (stage, message)
    Err(&'static str, String),
}

fn library_compose(dir: &Path, text: &str, layout: &Layout, define: bool, validate: bool) -> LibOutcome {
    let r = catch(|| {
        let doc = match Document::parse(text) {
            Ok(d) => d,
            Err(e) => return LibOutcome::Err("parse", e.to_string()),
        };
        let mut keys = match wac_resolver::packages(&doc) {
            Ok(k) => k,
            Err(e) => return LibOutcome::Err("discovery", e.to_string()),
        };
        let overrides: HashMap<String, PathBuf> = layout.overrides.iter().map(|(n, p)| (n.clone(), dir.join(p))).collect();
        let fs = wac_resolver::FileSystemPackageResolver::new(layout.deps_dir.clone(), overrides, false);
        let packages = match fs.resolve(&keys) {
            Ok(p) => p,
            Err(e) => return LibOutcome::Err("package-resolution", e.to_string()),
        };
        keys.retain(|k, _| !packages.contains_key(k));
        if let Some((k, _)) = keys.first() {
            return LibOutcome::Err("unknown-package", format!("unknown package `{}`", k.name));
        }
        let res = match doc.resolve(packages) {
            Ok(r) => r,
            Err(e) => return LibOutcome::Err("resolution", e.to_string()),
        };
        match res.encode(EncodeOptions { define_components: define, validate, processor: None }) {
            Ok(b) => LibOutcome::Ok(b),
            Err(e) => LibOutcome::Err("encode", format!("{e:#}")),
        }
    });
    match r {
        Ok(o) => o,
        Err(p) => LibOutcome::Err("panic", p.to_string()),
    }
}

struct Report<'a> {
    ctx: &'a mut Ctx,
    case: u64,
    input: serde_json::Value,
}

impl Report<'_> {
    fn bad(&mut self, sig: &str, detail: String) {
        self.ctx.violation(self.case, &format!("C19:{sig}"), detail, self.input.clone());
    }
}

/// Compares one CLI invocation that writes a component (compose / plug) with the library result.
#[allow(clippy::too_many_arguments)]
fn compare_output(rep: &mut Report, cmd: &str, args: &[String], out: &CliOut, dir: &Path, out_file: Option<&str>, wat: bool, expected: &LibOutcome) {
    let argv = args.join(" ");
    if out.timed_out {
        rep.ctx.count("inconclusive:cli-timeout");
        return;
    }
    let file_path = out_file.map(|f| dir.join(f));
    let file_bytes = file_path.as_ref().and_then(|p| std::fs::read(p).ok());
    match expected {
        LibOutcome::Ok(bytes) => {
            rep.ctx.count(&format!("{cmd}:library-ok"));
            if out.code != Some(0) {
                rep.bad(&format!("{cmd}:cli-fails-where-library-succeeds"), format!("`wac {argv}` exited with {:?}; stderr: {}", out.code, clip(&out.stderr, 600)));
                return;
            }
            let expected_payload: Vec<u8> = if wat {
                match wasmprinter::print_bytes(bytes) {
                    Ok(t) => t.into_bytes(),
                    Err(e) => {
                        rep.ctx.count("harness:print-failed");
                        rep.ctx.note("last_print_error", json!(e.to_string()));
                        return;
                    }
                }
            } else {
                bytes.clone()
            };
            let got: Vec<u8> = match out_file {
                Some(_) => {
                    if !out.stdout.is_empty() {
                        rep.bad(&format!("{cmd}:stdout-not-empty-with-output-file"), format!("`wac {argv}` wrote {} bytes to stdout although -o was given", out.stdout.len()));
                    }
                    match file_bytes {
                        Some(b) => b,
                        None => {
                            rep.bad(&format!("{cmd}:output-file-missing"), format!("`wac {argv}` exited 0 but did not write the output file"));
                            return;
                        }
                    }
                }
                None => {
                    let mut s = out.stdout.clone();
                    if wat {
                        // the text form on stdout is followed by one newline
                        if s.last() == Some(&b'\n') {
                            s.pop();
                        } else {
                            rep.bad(&format!("{cmd}:text-output-lacks-trailing-newline"), format!("`wac {argv}`"));
                        }
                    }
                    s
                }
            };
            if got != expected_payload {
                let what = if wat { "text" } else { "bytes" };
                rep.bad(&format!("{cmd}:output-{what}-differ-from-library"), format!("`wac {argv}`: output ({} bytes) differs from the library pipeline's ({} bytes)", got.len(), expected_payload.len()));
                return;
            }
            if wat {
                // the text assembles to a valid component with the same interface and wiring
                match wat::parse_bytes(&got) {
                    Ok(b) => {
                        // valid, same import/export names, and printing it again gives the same text
                        // (so the same structure and wiring)
                        let valid = crate::decode::validate(&b);
                        let (a, d) = (crate::decode::decode_any(&b), crate::decode::decode_any(bytes));
                        let again = wasmprinter::print_bytes(&b).map(|t| t.into_bytes()).unwrap_or_default();
                        let lib_valid = crate::decode::validate(bytes).is_ok();
                        if lib_valid && valid.is_err() {
                            rep.bad(&format!("{cmd}:text-assembles-to-an-invalid-component"), format!("`wac {argv}`: {}", valid.unwrap_err()));
                        } else if again != got {
                            rep.bad(&format!("{cmd}:text-assembles-to-a-different-component"), format!("`wac {argv}`: printing the assembled text gives a different text"));
                        } else if let (Ok(a), Ok(d)) = (a, d) {
                            if a.import_names() != d.import_names() || a.export_names() != d.export_names() {
                                rep.bad(&format!("{cmd}:text-assembles-to-a-different-interface"), format!("`wac {argv}`"));
                            } else {
                                rep.ctx.count("text-output-assembled-and-compared");
                            }
                        } else {
                            rep.ctx.count("text-output-not-decodable-by-d1");
                        }
                    }
                    Err(e) => rep.bad(&format!("{cmd}:text-output-does-not-assemble"), format!("`wac {argv}`: {e}")),
                }
            }
            rep.ctx.count(&format!("{cmd}:output-equal"));
        }
        LibOutcome::Err(stage, msg) => {
            rep.ctx.count(&format!("{cmd}:library-fails:{stage}"));
            if *stage == "panic" {
                rep.ctx.count("library-panic-skipped");
                return;
            }
            if out.code == Some(0) {
                rep.bad(&format!("{cmd}:cli-succeeds-where-library-fails:{stage}"), format!("`wac {argv}` exited 0; the library pipeline fails at {stage}: {}", clip(msg, 400)));
                return;
            }
            if out.code.is_none() {
                rep.bad(&format!("{cmd}:cli-killed-by-signal:{stage}"), format!("`wac {argv}`: {}", clip(&out.stderr, 400)));
                return;
            }
            if out.stderr.trim().is_empty() {
                rep.bad(&format!("{cmd}:failure-without-diagnostic:{stage}"), format!("`wac {argv}` exited {:?} with empty stderr", out.code));
            }
            if !out.stdout.is_empty() {
                rep.bad(&format!("{cmd}:failure-writes-stdout:{stage}"), format!("`wac {argv}` failed but wrote {} bytes to stdout", out.stdout.len()));
            }
            if file_bytes.is_some() {
                rep.bad(&format!("{cmd}:failure-writes-output-file:{stage}"), format!("`wac {argv}` failed at {stage} but the output file exists"));
            }
            // the diagnostic names the library's error (registry fallback for unknown packages excepted)
            if *stage != "unknown-package" {
                let first = msg.lines().next().unwrap_or("").trim();
                let flat: String = out.stderr.split_whitespace().collect::<Vec<_>>().join(" ");
                let want: String = first.split_whitespace().collect::<Vec<_>>().join(" ");
                if !want.is_empty() && !flat.replace("│ ", "").contains(&want) {
                    rep.bad(&format!("{cmd}:diagnostic-does-not-name-the-error:{stage}"), format!("`wac {argv}`: library error `{first}` not found in stderr: {}", clip(&out.stderr, 600)));
                } else {
                    rep.ctx.count("diagnostics-compared");
                }
            }
            rep.ctx.count(&format!("{cmd}:failure-equal"));
        }
    }
}

fn compose_case(ctx: &mut Ctx, case: u64, bin: &Path, lib: &[((String, Option<String>), Vec<u8>)]) {
    let mut rng = ctx.rng(case);
    let g = c17::gen_doc(&mut rng);
    let mut text = g.text.clone();
    let mut kind = "generated";
    match rng.below(10) {
        0 => {
            // parse failure
            let at = text.find(';').unwrap_or(0);
            text.insert_str(at, " ??? ");
            kind = "parse-error";
        }
        1 | 2 => {
            text.push_str(INVALID_FRAGMENT);
            kind = "validation-failure";
        }
        _ => {}
    }
    let dir = PathBuf::from(&ctx.scratch).join(format!("c{case}"));
    let _ = std::fs::remove_dir_all(&dir);
    if std::fs::create_dir_all(&dir).is_err() {
        ctx.count("harness:scratch-failed");
        return;
    }
    let mentioned: Vec<(String, Option<String>)> = {
        let mut m = g.keys.clone();
        for n in ["test:rb", "test:ra", "test:rc"] {
            m.push((n.to_string(), None));
        }
        m
    };
    // one time in six a mentioned package is left out of the layout (unknown package at run time)
    let drop_one = rng.chance(1, 6);
    let dropped = if drop_one && !g.keys.is_empty() { Some(g.keys[rng.below(g.keys.len())].clone()) } else { None };
    let layout = match write_layout(&mut rng, &dir, lib, &|k| (mentioned.contains(k) || k.0.starts_with("unrelated")) && Some(k) != dropped.as_ref()) {
        Ok(l) => l,
        Err(_) => {
            ctx.count("harness:scratch-failed");
            return;
        }
    };
    std::fs::write(dir.join("doc.wac"), &text).ok();
    let combos: Vec<usize> = if !ctx.quick() { (0..16).collect() } else { (0..4).map(|_| rng.below(16)).collect() };
    ctx.count(&format!("compose:document:{kind}"));
    for (ci, combo) in combos.iter().enumerate() {
        let (imp, noval, wat, to_file) = (combo & 1 != 0, combo & 2 != 0, combo & 4 != 0, combo & 8 != 0);
        let mut args: Vec<String> = vec!["compose".into()];
        if let Some(d) = &layout.deps_flag {
            args.push("--deps-dir".into());
            args.push(d.clone());
        }
        for (n, p) in &layout.overrides {
            args.push(if rng.chance(1, 2) { "--dep".into() } else { "-d".into() });
            args.push(format!("{n}={}", p.display()));
            if p.to_string_lossy().contains('=') {
                ctx.count("compose:dep-path-with-equals-sign");
            }
        }
        if imp {
            args.push(if rng.chance(1, 2) { "--import-dependencies".into() } else { "-i".into() });
        }
        if noval {
            args.push("--no-validate".into());
        }
        if wat {
            args.push(if rng.chance(1, 2) { "-t".into() } else { "--wat".into() });
        }
        let out_name = format!("out{ci}.bin");
        if to_file {
            args.push(if rng.chance(1, 2) { "-o".into() } else { "--output".into() });
            args.push(out_name.clone());
        }
        args.push("doc.wac".into());
        ctx.eval();
        ctx.count(&format!("compose:flags:i={}:no-validate={}:t={}:o={}", imp as u8, noval as u8, wat as u8, to_file as u8));
        let expected = library_compose(&dir, &text, &layout, !imp, !noval);
        let out = run_cli(bin, &dir, &args);
        let input = json!({"command": "compose", "args": args, "document": text, "layout": {"deps_dir": layout.deps_flag, "overrides": layout.overrides.iter().map(|(n, p)| format!("{n}={}", p.display())).collect::<Vec<_>>(), "dropped": dropped}});
        let mut rep = Report { ctx, case, input };
        compare_output(&mut rep, "compose", &args, &out, &dir, to_file.then_some(out_name.as_str()), wat, &expected);
        let class = match &expected {
            LibOutcome::Ok(_) => "ok".to_string(),
            LibOutcome::Err(s, _) => s.to_string(),
        };
        ctx.shape_str(&format!("compose|{combo}|{class}|{}", layout.deps_flag.is_some()));
    }
    let _ = std::fs::remove_dir_all(&dir);
}

// ---------------------------------------------------------------------------------------------
// parse

fn parse_case(ctx: &mut Ctx, case: u64, bin: &Path) {
    let mut rng = ctx.rng(case);
    let g = c17::gen_doc(&mut rng);
    let mut text = g.text;
    let broken = rng.chance(1, 4);
    if broken {
        let positions: Vec<usize> = text.match_indices(|c| c == ';' || c == '{').map(|(i, _)| i).collect();
        let at = positions[rng.below(positions.len())];
        text.insert_str(at, *rng.pick(&[" ??? ", " } ", " new ", "\"", " 1.2 "]));
    }
    let dir = PathBuf::from(&ctx.scratch).join(format!("p{case}"));
    let _ = std::fs::remove_dir_all(&dir);
    if std::fs::create_dir_all(&dir).is_err() {
        return;
    }
    std::fs::write(dir.join("doc.wac"), &text).ok();
    let args = vec!["parse".to_string(), "doc.wac".to_string()];
    ctx.eval();
    let out = run_cli(bin, &dir, &args);
    let input = json!({"command": "parse", "args": args, "document": text});
    if out.timed_out {
        ctx.count("inconclusive:cli-timeout");
        let _ = std::fs::remove_dir_all(&dir);
        return;
    }
    match Document::parse(&text) {
        Ok(doc) => {
            ctx.count("parse:library-ok");
            let mut want = serde_json::to_string_pretty(&doc).unwrap_or_default().into_bytes();
            want.push(b'\n');
            if out.code != Some(0) {
                ctx.violation(case, "C19:parse:cli-fails-where-library-succeeds", format!("exit {:?}: {}", out.code, clip(&out.stderr, 400)), input);
            } else if out.stdout != want {
                ctx.violation(case, "C19:parse:stdout-differs-from-serialised-tree", format!("stdout has {} bytes, the serialised tree {}", out.stdout.len(), want.len()), input);
            } else {
                ctx.count("parse:output-equal");
            }
        }
        Err(e) => {
            ctx.count("parse:library-fails");
            let first = e.to_string();
            let flat: String = out.stderr.split_whitespace().collect::<Vec<_>>().join(" ");
            let want: String = first.split_whitespace().collect::<Vec<_>>().join(" ");
            if out.code == Some(0) {
                ctx.violation(case, "C19:parse:cli-succeeds-where-library-fails", format!("library: {first}"), input);
            } else if !out.stdout.is_empty() {
                ctx.violation(case, "C19:parse:failure-writes-stdout", format!("{} bytes", out.stdout.len()), input);
            } else if !flat.contains(&want) {
                ctx.violation(case, "C19:parse:diagnostic-does-not-name-the-error", format!("library error `{first}`; stderr: {}", clip(&out.stderr, 400)), input);
            } else {
                ctx.count("parse:failure-equal");
            }
        }
    }
    ctx.shape_str(&format!("parse|{broken}|{}", text.len() / 64));
    let _ = std::fs::remove_dir_all(&dir);
}

// ---------------------------------------------------------------------------------------------
// plug

const PLUG_LIB: &str = "package ns:lib;\n\ninterface i0 {\n    f: func() -> u8;\n}\n\ninterface i1 {\n    g: func() -> u8;\n}\n\ninterface i2 {\n    h: func();\n}\n\ninterface i3 {\n    k: func(a: string) -> string;\n}\n";

fn plug_component(name: &str, imports: &[&str], exports: &[&str]) -> Option<Vec<u8>> {
    let libt = vec![("lib".to_string(), PLUG_LIB.to_string())];
    let mut w = format!("package test:{name};\n\nworld w {{\n");
    for i in imports {
        w.push_str(&format!("    import ns:lib/{i};\n"));
    }
    for e in exports {
        w.push_str(&format!("    export ns:lib/{e};\n"));
    }
    w.push_str("}\n");
    catch(|| witgen::build_component(&libt, &w, "w")).ok()?.ok()
}

fn library_plug(socket: &[u8], plugs: &[(String, Vec<u8>)]) -> LibOutcome {
    let r = catch(|| {
        let mut graph = CompositionGraph::new();
        let s = match Package::from_bytes("socket", None, socket.to_vec(), graph.types_mut()) {
            Ok(p) => p,
            Err(e) => return LibOutcome::Err("socket", format!("{e:#}")),
        };
        let s = match graph.register_package(s) {
            Ok(s) => s,
            Err(e) => return LibOutcome::Err("socket", e.to_string()),
        };
        // the CLI names local plugs `plug:<file stem>` and numbers plugs that share a stem
        let mut ids = Vec::new();
        let mut by_stem: indexmap::IndexMap<&str, Vec<usize>> = indexmap::IndexMap::new();
        for (i, (stem, _)) in plugs.iter().enumerate() {
            by_stem.entry(stem.as_str()).or_default().push(i);
        }
        for (stem, idxs) in &by_stem {
            for (j, i) in idxs.iter().enumerate() {
                let mut name = format!("plug:{stem}");
                if idxs.len() > 1 {
                    name.push_str(&j.to_string());
                }
                let p = match Package::from_bytes(&name, None, plugs[*i].1.clone(), graph.types_mut()) {
                    Ok(p) => p,
                    Err(e) => return LibOutcome::Err("plug", format!("{e:#}")),
                };
                match graph.register_package(p) {
                    Ok(id) => ids.push(id),
                    Err(e) => return LibOutcome::Err("plug", e.to_string()),
                }
            }
        }
        if let Err(e) = wac_graph::plug(&mut graph, ids, s) {
            return LibOutcome::Err("plug", e.to_string());
        }
        match graph.encode(EncodeOptions::default()) {
            Ok(b) => LibOutcome::Ok(b),
            Err(e) => LibOutcome::Err("encode", format!("{e:#}")),
        }
    });
    match r {
        Ok(o) => o,
        Err(p) => LibOutcome::Err("panic", p.to_string()),
    }
}

fn plug_case(ctx: &mut Ctx, case: u64, bin: &Path) {
    let mut rng = ctx.rng(case);
    let ifaces = ["i0", "i1", "i2", "i3"];
    // socket imports 1-3 interfaces, exports one
    let n_imp = rng.range(1, 3);
    let mut imps: Vec<&str> = Vec::new();
    while imps.len() < n_imp {
        let i = *rng.pick(&ifaces[..3]);
        if !imps.contains(&i) {
            imps.push(i);
        }
    }
    let Some(socket) = plug_component("socket", &imps, &["i3"]) else {
        ctx.count("harness:component-build-failed");
        return;
    };
    let n_plugs = rng.range(1, 4);
    let stems = ["alpha", "beta", "gamma", "delta", "p"];
    let mut plugs: Vec<(String, String, Vec<u8>)> = Vec::new(); // (dir, stem, bytes)
    for k in 0..n_plugs {
        let mut ex: Vec<&str> = Vec::new();
        for _ in 0..rng.range(1, 2) {
            let i = *rng.pick(&ifaces[..4]);
            if !ex.contains(&i) {
                ex.push(i);
            }
        }
        let stem = if rng.chance(1, 4) { "p".to_string() } else { stems[k % 4].to_string() };
        let Some(b) = plug_component(&format!("plug{k}"), &[], &ex) else {
            ctx.count("harness:component-build-failed");
            return;
        };
        plugs.push((format!("d{k}"), stem, b));
    }
    let dir = PathBuf::from(&ctx.scratch).join(format!("g{case}"));
    let _ = std::fs::remove_dir_all(&dir);
    if std::fs::create_dir_all(&dir).is_err() {
        return;
    }
    std::fs::write(dir.join("socket.wasm"), &socket).ok();
    for (d, stem, b) in &plugs {
        std::fs::create_dir_all(dir.join(d)).ok();
        std::fs::write(dir.join(d).join(format!("{stem}.wasm")), b).ok();
    }
    let expected = library_plug(&socket, &plugs.iter().map(|(_, s, b)| (s.clone(), b.clone())).collect::<Vec<_>>());
    let distinct_stems = {
        let mut s: Vec<&String> = plugs.iter().map(|p| &p.1).collect();
        s.sort();
        s.dedup();
        s.len()
    };
    let combos: Vec<usize> = if !ctx.quick() { (0..4).collect() } else { vec![rng.below(4)] };
    // every combination is run several times: each process draws its own hash seeds
    let repeats = if !ctx.quick() { 6 } else { 4 };
    for (ci, combo) in combos.iter().enumerate() {
        let (wat, to_file) = (combo & 1 != 0, combo & 2 != 0);
        for rep_i in 0..repeats {
            let mut args: Vec<String> = vec!["plug".into()];
            for (d, stem, _) in &plugs {
                args.push("--plug".into());
                args.push(format!("{d}/{stem}.wasm"));
            }
            if wat {
                args.push("-t".into());
            }
            let out_name = format!("out{ci}-{rep_i}.bin");
            if to_file {
                args.push("-o".into());
                args.push(out_name.clone());
            }
            args.push("socket.wasm".into());
            ctx.eval();
            ctx.count(&format!("plug:flags:t={}:o={}", wat as u8, to_file as u8));
            ctx.count(&format!("plug:distinct-plug-names={distinct_stems}"));
            let out = run_cli(bin, &dir, &args);
            let input = json!({"command": "plug", "args": args, "socket_imports": imps, "plugs": plugs.iter().map(|(d, s, _)| format!("{d}/{s}.wasm")).collect::<Vec<_>>()});
            let mut rep = Report { ctx, case, input };
            compare_output(&mut rep, "plug", &args, &out, &dir, to_file.then_some(out_name.as_str()), wat, &expected);
        }
        let class = match &expected {
            LibOutcome::Ok(_) => "ok".to_string(),
            LibOutcome::Err(s, m) => format!("{s}:{}", normalize_msg(m)),
        };
        ctx.shape_str(&format!("plug|{combo}|{class}|{n_plugs}|{distinct_stems}"));
    }
    let _ = std::fs::remove_dir_all(&dir);
}

// ---------------------------------------------------------------------------------------------
// targets

fn library_targets(dir: &Path, wit: &str, comp: &[u8], world: Option<&str>) -> Result<(), String> {
    let r = catch(|| -> Result<(), String> {
        let mut resolve = wit_parser::Resolve::new();
        let (pkg, _) = resolve.push_path(dir.join(wit)).map_err(|e| format!("{e:#}"))?;
        let wit_bytes = wit_component::encode(&resolve, pkg).map_err(|e| format!("{e:#}"))?;
        let mut types = wac_types::Types::default();
        let w = Package::from_bytes("wit", None, wit_bytes, &mut types).map_err(|e| format!("{e:#}"))?;
        let c = Package::from_bytes("component", None, comp.to_vec(), &mut types).map_err(|e| format!("{e:#}"))?;
        let top = &types[w.ty()];
        let item = match world {
            Some(n) => *top.exports.get(n).ok_or_else(|| format!("wit package did not contain a world named '{n}'"))?,
            None if top.exports.len() == 1 => *top.exports.values().next().unwrap(),
            None if top.exports.len() > 1 => return Err("wit package has multiple worlds, please specify one with the --world flag".into()),
            None => return Err("wit package did not contain a world".into()),
        };
        let wac_types::ItemKind::Type(wac_types::Type::World(wid)) = item else { return Err("wit package was not encoded properly".into()) };
        let Some(wac_types::ItemKind::Component(target)) = types[wid].exports.values().next().copied() else { return Err("wit package was not encoded properly".into()) };
        wac_types::validate_target(&types, target, c.ty()).map_err(|e| e.to_string())
    });
    match r {
        Ok(x) => x,
        Err(p) => Err(format!("panic: {p}")),
    }
}

fn targets_case(ctx: &mut Ctx, case: u64, bin: &Path) {
    let mut rng = ctx.rng(case);
    // the target world and the component's world are drawn from the same small family
    let items = ["import a: func() -> u8;", "import b: func(x: string);", "import i0;", "export c: func() -> string;", "export d: func(x: u32) -> u32;", "export i1;"];
    let pick = |rng: &mut Rng| -> Vec<usize> { (0..items.len()).filter(|_| rng.chance(1, 2)).collect() };
    let target = pick(&mut rng);
    let comp_items = if rng.chance(1, 3) { target.clone() } else { pick(&mut rng) };
    let two_worlds = rng.chance(1, 3);
    let ifaces = "interface i0 {\n    f: func() -> u8;\n}\n\ninterface i1 {\n    g: func(a: u8);\n}\n";
    let mut wit = format!("package test:t;\n\n{ifaces}\nworld w {{\n");
    for i in &target {
        wit.push_str(&format!("    {}\n", items[*i]));
    }
    wit.push_str("}\n");
    if two_worlds {
        wit.push_str("\nworld other {\n    import z: func();\n}\n");
    }
    let mut cw = format!("package test:t;\n\n{ifaces}\nworld w {{\n");
    for i in &comp_items {
        cw.push_str(&format!("    {}\n", items[*i]));
    }
    cw.push_str("}\n");
    let comp = match catch(|| witgen::build_component(&[], &cw, "w")) {
        Ok(Ok(b)) => b,
        _ => {
            ctx.count("harness:component-build-failed");
            return;
        }
    };
    let dir = PathBuf::from(&ctx.scratch).join(format!("t{case}"));
    let _ = std::fs::remove_dir_all(&dir);
    if std::fs::create_dir_all(&dir).is_err() {
        return;
    }
    std::fs::write(dir.join("target.wit"), &wit).ok();
    std::fs::write(dir.join("comp.wasm"), &comp).ok();
    for world in [None, Some("w"), Some("nope")] {
        if !!ctx.quick() && rng.chance(1, 2) {
            continue;
        }
        let mut args: Vec<String> = vec!["targets".into(), "--wit".into(), "target.wit".into()];
        if let Some(w) = world {
            args.push("--world".into());
            args.push(w.into());
        }
        args.push("comp.wasm".into());
        ctx.eval();
        let expected = library_targets(&dir, "target.wit", &comp, world);
        let out = run_cli(bin, &dir, &args);
        let input = json!({"command": "targets", "args": args, "wit": wit, "component_world": cw});
        if out.timed_out {
            ctx.count("inconclusive:cli-timeout");
            continue;
        }
        match &expected {
            Ok(()) => {
                ctx.count("targets:library-accepts");
                if out.code != Some(0) {
                    ctx.violation(case, "C19:targets:cli-rejects-where-library-accepts", format!("`wac {}` exited {:?}: {}", args.join(" "), out.code, clip(&out.stderr, 400)), input);
                } else {
                    ctx.count("targets:verdict-equal");
                }
            }
            Err(m) => {
                ctx.count("targets:library-rejects");
                if out.code == Some(0) {
                    ctx.violation(case, "C19:targets:cli-accepts-where-library-rejects", format!("`wac {}` exited 0; library: {}", args.join(" "), clip(m, 300)), input);
                } else if out.stderr.trim().is_empty() {
                    ctx.violation(case, "C19:targets:failure-without-diagnostic", format!("`wac {}`", args.join(" ")), input);
                } else {
                    ctx.count("targets:verdict-equal");
                }
            }
        }
        ctx.shape_str(&format!("targets|{:?}|{:?}|{:?}|{}", target, comp_items, world, expected.is_ok()));
    }
    let _ = std::fs::remove_dir_all(&dir);
}

pub fn run(ctx: &mut Ctx) {
    let Some(bin) = cli_path() else {
        ctx.note("harness_error", json!("WACVERIF_CLI does not name the built wac binary"));
        ctx.count("harness:no-cli-binary");
        return;
    };
    let mut lib = match c17::build_lib() {
        Ok(l) => l.all,
        Err(e) => {
            ctx.note("harness_error", json!(e));
            return;
        }
    };
    match extra_packages() {
        Ok(x) => lib.extend(x),
        Err(e) => {
            ctx.note("harness_error", json!(e));
            return;
        }
    }
    let total = ctx.n(480, 12_000);
    for case in ctx.cases(total) {
        if ctx.out_of_budget() {
            ctx.count("budget-stop");
            break;
        }
        ctx.begin(case);
        match case % 8 {
            0..=3 => compose_case(ctx, case, &bin, &lib),
            4 => parse_case(ctx, case, &bin),
            5 | 6 => plug_case(ctx, case, &bin),
            _ => targets_case(ctx, case, &bin),
        }
    }
}
