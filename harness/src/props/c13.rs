//! C13 — printing a parsed document and re-parsing it gives the same document.

use crate::ctx::Ctx;
use crate::props::c12::first_diff;
use crate::util::{catch, normalize_msg};
use crate::wacgen::{self, Gen};
use serde_json::{json, Value};
use wac_parser::{Document, DocumentPrinter};

pub fn print_doc(src: &str) -> Result<(String, Value), String> {
    let doc = Document::parse(src).map_err(|e| format!("parse: {e}"))?;
    let mut s = String::new();
    DocumentPrinter::new(&mut s, src, None).document(&doc).map_err(|e| format!("print: {e}"))?;
    let tree = serde_json::to_value(&doc).map_err(|e| e.to_string())?;
    Ok((s, tree))
}

fn path_shape(p: &str) -> String {
    let mut s = String::new();
    let mut in_br = false;
    for c in p.chars() {
        match c {
            '[' => {
                in_br = true;
                s.push('[');
            }
            ']' => {
                in_br = false;
                s.push(']');
            }
            c if in_br && c.is_ascii_digit() => {}
            ':' | ' ' => break,
            c => s.push(c),
        }
    }
    s
}

pub fn check_text(ctx: &mut Ctx, case: u64, origin: &str, src: &str) {
    ctx.eval();
    let input = json!({"origin": origin, "text": src});
    let r = catch(|| {
        let (p1, t0) = match print_doc(src) {
            Ok(x) => x,
            Err(e) => return Err(("not-accepted".to_string(), e)),
        };
        let (p2, t1) = match print_doc(&p1) {
            Ok(x) => x,
            Err(e) => {
                return Err((
                    format!("printed-text-does-not-parse:{}", normalize_msg(&e)),
                    format!("printer output is rejected ({e}); printed text:\n{p1}"),
                ))
            }
        };
        let a = wacgen::normalize_docs(&wacgen::strip_spans(&t0));
        let b = wacgen::normalize_docs(&wacgen::strip_spans(&t1));
        if let Some(d) = first_diff(&a, &b, "$") {
            return Err((format!("tree-changes:{}", path_shape(&d)), format!("tree differs after print+parse at {d}; printed text:\n{p1}")));
        }
        if p1 != p2 {
            return Err(("print-not-idempotent".to_string(), format!("second print differs from the first:\n--- first\n{p1}\n--- second\n{p2}")));
        }
        Ok(())
    });
    match r {
        Ok(Ok(())) => ctx.count("roundtrip-ok"),
        Ok(Err((sig, detail))) => {
            if sig == "not-accepted" {
                ctx.count("input-not-accepted");
            } else {
                ctx.violation(case, &format!("C13:{sig}"), detail, input);
            }
        }
        Err(p) => ctx.violation(case, &format!("C13:panic:{}", normalize_msg(&p.message)), p.to_string(), input),
    }
}

fn wac_files() -> Vec<std::path::PathBuf> {
    let root = std::env::var("WAC_REPO").unwrap_or_else(|_| "/repo".into());
    let mut out = Vec::new();
    let mut stack = vec![std::path::PathBuf::from(root)];
    while let Some(d) = stack.pop() {
        let Ok(rd) = std::fs::read_dir(&d) else { continue };
        for e in rd.flatten() {
            let p = e.path();
            let name = p.file_name().and_then(|n| n.to_str()).unwrap_or("");
            if p.is_dir() {
                if name != "target" && name != ".git" {
                    stack.push(p);
                }
            } else if name.ends_with(".wac") {
                out.push(p);
            }
        }
    }
    out.sort();
    out
}

pub fn run(ctx: &mut Ctx) {
    if let Some(input) = ctx.replay_input.clone() {
        let text = input["text"].as_str().unwrap_or("").to_string();
        check_text(ctx, ctx.only_case.unwrap_or(0), "replay", &text);
        return;
    }
    // part A: every .wac file shipped in the repository
    let files = wac_files();
    let nfiles = files.len() as u64;
    for case in ctx.cases(nfiles) {
        ctx.begin(case);
        let p = &files[case as usize];
        if let Ok(src) = std::fs::read_to_string(p) {
            ctx.count("repo-wac-files");
            check_text(ctx, case, &p.display().to_string(), &src);
        }
    }
    ctx.note("repo_wac_files", json!(nfiles));
    // part B: grammar-generated documents with randomised layout
    let total = ctx.n(30_000, 10_000_000);
    for case in ctx.cases(nfiles + total) {
        if case < nfiles {
            continue;
        }
        if ctx.out_of_budget() {
            ctx.count("budget-stop");
            break;
        }
        ctx.begin(case);
        let mut rng = ctx.rng(case);
        let mut lay = rng.fork();
        let (toks, productions) = {
            let mut g = Gen::new(&mut rng);
            let max = g.rng.range(1, 8);
            g.document(max);
            (g.toks, g.productions)
        };
        for (k, v) in &productions {
            ctx.add(&format!("production:{k}"), *v);
        }
        let text = wacgen::layout(&mut lay, &toks, true);
        check_text(ctx, case, "generated", &text);
        let kinds = productions.keys().filter(|k| k.ends_with("-statement") || k.ends_with("-decl")).count();
        if kinds >= 3 {
            ctx.shape_str(&toks.iter().map(|t| t.text.as_str()).collect::<Vec<_>>().join(" "));
            if ctx.samples.len() < 2 {
                ctx.sample(json!({"case": case, "document": text}));
            }
        }
    }
}
