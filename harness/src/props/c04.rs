//! C04 — WAC documents compose what the language reference says they compose.
//!
//! Monitor: programs are generated as a small AST over a fixed library of packages, printed as WAC
//! text, and evaluated by a reference evaluator (M3) written from LANGUAGE.md (argument name
//! inference precedence, named / spread / `...` arguments, access and named access, export name
//! inference, `as`, spread exports, and the ill-formed cases).  wac resolves and encodes the same
//! text; the independent decoder D1 turns the output into provenance terms, which must equal the
//! evaluator's terms (instantiations as a multiset, exports by name); a program the evaluator
//! rejects must be rejected by wac with the corresponding diagnostic.

use crate::ctx::Ctx;
use crate::decode::{self, Sort, Term};
use crate::util::{catch, normalize_msg, sha256_hex, Rng};
use crate::witgen;
use indexmap::IndexMap;
use serde_json::json;
use std::collections::{BTreeMap, BTreeSet};
use wac_parser::Document;
use wac_types::BorrowedPackageKey;

// ---------------------------------------------------------------------------------------------
// library model

/// Type identities (two items are compatible exactly when sort and id agree).
const T_A: u32 = 1; // ns:lib/a        { f: func() -> u8 }
const T_B: u32 = 2; // ns:lib/b        { g: func() -> u8 }
const T_C: u32 = 3; // ns:lib/c        { h: func() }
const T_OA: u32 = 4; // ns:other/a      { k: func() }
const T_D: u32 = 5; // ns:ver/d@1.2.0  { m: func() }
const T_P: u32 = 6; // inline          { p: func() }
const F_U8: u32 = 10; // func() -> u8
const F_0: u32 = 11; // func()

fn iface_funcs(ty: u32) -> Vec<(&'static str, u32)> {
    match ty {
        T_A => vec![("f", F_U8)],
        T_B => vec![("g", F_U8)],
        T_C => vec![("h", F_0)],
        T_OA => vec![("k", F_0)],
        T_D => vec![("m", F_0)],
        T_P => vec![("p", F_0)],
        _ => vec![],
    }
}

fn iface_text(ty: u32) -> String {
    let fs: Vec<String> = iface_funcs(ty).iter().map(|(n, f)| format!("{n}: {};", func_text(*f))).collect();
    format!("interface {{ {} }}", fs.join(" "))
}

fn func_text(f: u32) -> &'static str {
    if f == F_U8 {
        "func() -> u8"
    } else {
        "func()"
    }
}

#[derive(Clone, Debug, PartialEq)]
struct Extern {
    name: String,
    sort: Sort,
    ty: u32,
}

impl Extern {
    fn inst(name: &str, ty: u32) -> Self {
        Extern { name: name.into(), sort: Sort::Instance, ty }
    }
    fn func(name: &str, ty: u32) -> Self {
        Extern { name: name.into(), sort: Sort::Func, ty }
    }
    /// the interface id an instance extern carries (its name, when that is a package path)
    fn path(&self) -> Option<String> {
        (self.sort == Sort::Instance && self.name.contains(':')).then(|| self.name.clone())
    }
}

struct PkgModel {
    name: &'static str,
    imports: Vec<Extern>,
    exports: Vec<Extern>,
    bytes: Vec<u8>,
    sha: String,
}

pub struct Lib {
    pkgs: Vec<PkgModel>,
    /// the WIT packages the paths of import statements refer to: (name, version, bytes)
    wit: Vec<(String, Option<semver::Version>, Vec<u8>)>,
}

const LIBS: &[(&str, &str)] = &[
    ("lib", "package ns:lib;\n\ninterface a {\n    f: func() -> u8;\n}\n\ninterface b {\n    g: func() -> u8;\n}\n\ninterface c {\n    h: func();\n}\n"),
    ("other", "package ns:other;\n\ninterface a {\n    k: func();\n}\n"),
    ("ver", "package ns:ver@1.2.0;\n\ninterface d {\n    m: func();\n}\n"),
];

fn world_text(pkg: &str, imports: &[Extern], exports: &[Extern]) -> String {
    let mut s = format!("package {pkg};\n\nworld w {{\n");
    for (dir, list) in [("import", imports), ("export", exports)] {
        for e in list {
            if e.name.contains(':') {
                s.push_str(&format!("    {dir} {};\n", e.name));
            } else if e.sort == Sort::Instance {
                s.push_str(&format!("    {dir} {}: {}\n", e.name, iface_text(e.ty)));
            } else {
                s.push_str(&format!("    {dir} {}: {};\n", e.name, func_text(e.ty)));
            }
        }
    }
    s.push_str("}\n");
    s
}

pub fn build_lib() -> Result<Lib, String> {
    let a = Extern::inst("ns:lib/a", T_A);
    let b = Extern::inst("ns:lib/b", T_B);
    let c = Extern::inst("ns:lib/c", T_C);
    let oa = Extern::inst("ns:other/a", T_OA);
    let d = Extern::inst("ns:ver/d@1.2.0", T_D);
    let plain = Extern::inst("plain", T_P);
    let defs: Vec<(&'static str, Vec<Extern>, Vec<Extern>)> = vec![
        ("t:src", vec![], vec![a.clone(), b.clone(), oa.clone(), d.clone(), Extern::func("run", F_0), Extern::func("cfg", F_U8), plain.clone()]),
        ("t:one", vec![a.clone()], vec![c.clone()]),
        ("t:two", vec![a.clone(), b.clone()], vec![Extern::func("out", F_0)]),
        ("t:amb", vec![a.clone(), oa.clone()], vec![b.clone()]),
        ("t:ver", vec![d.clone(), Extern::func("cfg", F_U8), plain.clone()], vec![Extern::func("done", F_0)]),
        ("t:p", vec![], vec![Extern::func("p", F_0)]),
        ("t:mix", vec![a.clone(), Extern::func("a", F_0)], vec![Extern::func("m", F_0)]),
    ];
    let libt: Vec<(String, String)> = LIBS.iter().map(|(n, t)| (n.to_string(), t.to_string())).collect();
    let mut pkgs = Vec::new();
    for (name, imports, exports) in defs {
        let text = world_text(name, &imports, &exports);
        let bytes = witgen::build_component(&libt, &text, "w").map_err(|e| format!("{name}: {e:#}"))?;
        // self-check of the model against the binary (independent decoder)
        let dec = decode::decode_any(&bytes).map_err(|e| format!("{name}: {e:#}"))?;
        let want_i: Vec<String> = imports.iter().map(|e| e.name.clone()).collect();
        let want_e: Vec<String> = exports.iter().map(|e| e.name.clone()).collect();
        let same = |a: &[String], b: &[String]| {
            let (mut a, mut b) = (a.to_vec(), b.to_vec());
            a.sort();
            b.sort();
            a == b
        };
        if !same(&dec.import_names(), &want_i) || !same(&dec.export_names(), &want_e) {
            return Err(format!("{name}: model {want_i:?}/{want_e:?} but binary {:?}/{:?}", dec.import_names(), dec.export_names()));
        }
        // the binary's order is the order the language rules see
        let (mut imports, mut exports) = (imports, exports);
        let (oi, oe) = (dec.import_names(), dec.export_names());
        imports.sort_by_key(|e| oi.iter().position(|n| *n == e.name));
        exports.sort_by_key(|e| oe.iter().position(|n| *n == e.name));
        let sha = sha256_hex(&bytes);
        pkgs.push(PkgModel { name, imports, exports, bytes, sha });
    }
    let mut wit = Vec::new();
    for (_, text) in LIBS {
        let head = text.lines().next().unwrap().trim_start_matches("package ").trim_end_matches(';');
        let (n, v) = match head.split_once('@') {
            Some((n, v)) => (n.to_string(), Some(semver::Version::parse(v).map_err(|e| e.to_string())?)),
            None => (head.to_string(), None),
        };
        let bytes = witgen::encode_wit_package(&[], text).map_err(|e| format!("{n}: {e:#}"))?;
        wit.push((n, v, bytes));
    }
    Ok(Lib { pkgs, wit })
}

// ---------------------------------------------------------------------------------------------
// programs

#[derive(Clone, Debug)]
enum ImpTy {
    Path(Extern),
    Inline(u32),
    Func(u32),
}

#[derive(Clone, Debug)]
enum ArgName {
    Ident(String),
    Str(String),
}

#[derive(Clone, Debug)]
enum Arg {
    Inferred(String),
    Named(ArgName, Expr),
    Spread(String),
    Fill,
}

#[derive(Clone, Debug)]
enum Expr {
    Ident(String),
    New(usize, Vec<Arg>),
    Access(Box<Expr>, String),
    NamedAccess(Box<Expr>, String),
    Nested(Box<Expr>),
}

#[derive(Clone, Debug)]
enum ExpOpt {
    None,
    As(String),
    Spread,
}

#[derive(Clone, Debug)]
enum Stmt {
    Import { id: String, as_name: Option<String>, ty: ImpTy },
    Let { id: String, expr: Expr },
    Export { expr: Expr, opt: ExpOpt },
}

fn print_expr(lib: &Lib, e: &Expr, out: &mut String) {
    match e {
        Expr::Ident(i) => out.push_str(i),
        Expr::New(p, args) => {
            out.push_str(&format!("new {} {{", lib.pkgs[*p].name));
            for (i, a) in args.iter().enumerate() {
                out.push_str(if i == 0 { " " } else { ", " });
                match a {
                    Arg::Inferred(n) => out.push_str(n),
                    Arg::Spread(n) => out.push_str(&format!("...{n}")),
                    Arg::Fill => out.push_str("..."),
                    Arg::Named(n, e) => {
                        match n {
                            ArgName::Ident(i) => out.push_str(i),
                            ArgName::Str(s) => out.push_str(&format!("\"{s}\"")),
                        }
                        out.push_str(": ");
                        print_expr(lib, e, out);
                    }
                }
            }
            out.push_str(if args.is_empty() { "}" } else { " }" });
        }
        Expr::Access(e, n) => {
            print_expr(lib, e, out);
            out.push('.');
            out.push_str(n);
        }
        Expr::NamedAccess(e, n) => {
            print_expr(lib, e, out);
            out.push_str(&format!("[\"{n}\"]"));
        }
        Expr::Nested(e) => {
            out.push('(');
            print_expr(lib, e, out);
            out.push(')');
        }
    }
}

fn print_program(lib: &Lib, prog: &[Stmt]) -> String {
    let mut s = String::from("package test:doc;\n\n");
    for st in prog {
        match st {
            Stmt::Import { id, as_name, ty } => {
                s.push_str(&format!("import {id}"));
                if let Some(n) = as_name {
                    s.push_str(&format!(" as \"{n}\""));
                }
                s.push_str(": ");
                match ty {
                    ImpTy::Path(e) => s.push_str(&e.name),
                    ImpTy::Inline(t) => s.push_str(&iface_text(*t)),
                    ImpTy::Func(f) => s.push_str(func_text(*f)),
                }
                s.push_str(";\n");
            }
            Stmt::Let { id, expr } => {
                s.push_str(&format!("let {id} = "));
                print_expr(lib, expr, &mut s);
                s.push_str(";\n");
            }
            Stmt::Export { expr, opt } => {
                s.push_str("export ");
                print_expr(lib, expr, &mut s);
                match opt {
                    ExpOpt::None => {}
                    ExpOpt::As(n) => s.push_str(&format!(" as \"{n}\"")),
                    ExpOpt::Spread => s.push_str("..."),
                }
                s.push_str(";\n");
            }
        }
    }
    s
}

// ---------------------------------------------------------------------------------------------
// M3: the reference evaluator

#[derive(Clone, Debug, PartialEq, Eq, PartialOrd, Ord)]
pub enum Fail {
    UndefinedName,
    DuplicateName,
    DuplicateImportName,
    MissingArgument,
    DuplicateArgument,
    AccessOnNonInstance,
    SpreadOfNonInstance,
    FillNotLast,
    SpreadArgumentNoMatch,
    SpreadExportNoEffect,
    DuplicateExportName,
    UnknownArgumentName,
    ArgumentTypeMismatch,
    MissingExport,
    ExportNeedsName,
    ImplicitImportConflictsWithExplicit,
}

impl Fail {
    /// The wac diagnostic (Debug name of the resolution error, or the encode error text) that
    /// corresponds to the fault.
    fn matches(&self, outcome: &str) -> bool {
        let want: &[&str] = match self {
            Fail::UndefinedName => &["resolve:UndefinedName"],
            Fail::DuplicateName => &["resolve:DuplicateName"],
            Fail::DuplicateImportName => &["resolve:DuplicateExternName"],
            Fail::MissingArgument => &["resolve:MissingInstantiationArg"],
            Fail::DuplicateArgument => &["resolve:DuplicateInstantiationArg"],
            Fail::AccessOnNonInstance | Fail::SpreadOfNonInstance => &["resolve:NotAnInstance"],
            Fail::FillNotLast => &["resolve:FillArgumentNotLast"],
            Fail::SpreadArgumentNoMatch => &["resolve:SpreadInstantiationNoMatch"],
            Fail::SpreadExportNoEffect => &["resolve:SpreadExportNoEffect"],
            Fail::DuplicateExportName => &["resolve:DuplicateExternName"],
            Fail::UnknownArgumentName => &["resolve:MissingComponentImport"],
            Fail::ArgumentTypeMismatch => &["resolve:MismatchedInstantiationArg"],
            Fail::MissingExport => &["resolve:MissingInstanceExport"],
            Fail::ExportNeedsName => &["resolve:ExportRequiresAs"],
            Fail::ImplicitImportConflictsWithExplicit => &["encode:import-conflicts-with-implicit"],
        };
        want.iter().any(|w| outcome == *w)
    }
}

#[derive(Clone, Debug)]
struct Item {
    term: Term,
    sort: Sort,
    ty: u32,
    /// import name or accessed export name, if the item is an import or an access
    name: Option<String>,
    /// package path associated with an instance
    path: Option<String>,
    /// exports, for instances
    exports: Vec<Extern>,
}

/// Index of the package whose instances are structurally an inline `{ p: func() }` instance.
const PKG_P: usize = 5;
/// Index of the package that imports both `ns:lib/a` and a plain `a`.
const PKG_MIX: usize = 6;

/// Is the item acceptable where `imp` is expected?
fn fits(item: &Item, imp: &Extern) -> bool {
    item.sort == imp.sort && (item.ty == imp.ty || (item.ty == 1000 + PKG_P as u32 && imp.ty == T_P))
}

fn exports_of(e: &Extern) -> Vec<Extern> {
    if e.sort == Sort::Instance {
        iface_funcs(e.ty).into_iter().map(|(n, f)| Extern::func(n, f)).collect()
    } else {
        vec![]
    }
}

#[derive(Default, Clone)]
pub struct Composition {
    pub instantiations: Vec<Term>,
    pub exports: IndexMap<String, (Sort, Term)>,
    pub explicit_imports: Vec<String>,
    pub implicit_imports: BTreeSet<String>,
}

struct Eval<'a> {
    lib: &'a Lib,
    env: IndexMap<String, Item>,
    comp: Composition,
    /// which rules of the reference were exercised (evidence)
    rules: Vec<&'static str>,
}

/// "exactly one import/export has a path which ends with the name"
fn unique_path_ending_with<'e>(name: &str, externs: &'e [Extern]) -> Option<&'e str> {
    let mut hits = externs.iter().filter(|e| match e.name.rfind('/') {
        Some(i) => {
            let last = &e.name[i + 1..];
            let last = last.split('@').next().unwrap_or(last);
            last == name
        }
        None => false,
    });
    let first = hits.next()?;
    if hits.next().is_some() {
        return None;
    }
    Some(first.name.as_str())
}

impl<'a> Eval<'a> {
    fn lookup(&self, id: &str) -> Result<Item, Fail> {
        self.env.get(id).cloned().ok_or(Fail::UndefinedName)
    }

    fn access(&mut self, item: &Item, name: &str) -> Option<Item> {
        let e = item.exports.iter().find(|e| e.name == name)?.clone();
        Some(Item { term: Term::AliasExport(Box::new(item.term.clone()), name.to_string()), sort: e.sort, ty: e.ty, name: Some(name.to_string()), path: e.path(), exports: exports_of(&e) })
    }

    fn expr(&mut self, e: &Expr) -> Result<Item, Fail> {
        match e {
            Expr::Ident(i) => self.lookup(i),
            Expr::Nested(e) => self.expr(e),
            Expr::Access(inner, id) => {
                let item = self.expr(inner)?;
                if item.sort != Sort::Instance {
                    return Err(Fail::AccessOnNonInstance);
                }
                // exactly one export with `id` as the final component of a path -> the path;
                // otherwise the identifier itself
                let name = match unique_path_ending_with(id, &item.exports) {
                    Some(p) => {
                        self.rules.push("access:unique-path-ending-with-id");
                        p.to_string()
                    }
                    _ => {
                        self.rules.push("access:identifier-itself");
                        id.clone()
                    }
                };
                self.access(&item, &name).ok_or(Fail::MissingExport)
            }
            Expr::NamedAccess(inner, name) => {
                let item = self.expr(inner)?;
                if item.sort != Sort::Instance {
                    return Err(Fail::AccessOnNonInstance);
                }
                self.rules.push("named-access:exact-name");
                self.access(&item, name).ok_or(Fail::MissingExport)
            }
            Expr::New(p, args) => self.new_expr(*p, args),
        }
    }

    fn new_expr(&mut self, p: usize, args: &[Arg]) -> Result<Item, Fail> {
        let lib = self.lib;
        let pkg = &lib.pkgs[p];
        let mut bound: IndexMap<String, Item> = IndexMap::new();
        let mut fill = false;
        for (i, a) in args.iter().enumerate() {
            let (name, item) = match a {
                Arg::Spread(_) => continue,
                Arg::Fill => {
                    if i != args.len() - 1 {
                        return Err(Fail::FillNotLast);
                    }
                    fill = true;
                    continue;
                }
                Arg::Inferred(id) => {
                    let item = self.lookup(id)?;
                    let has = |n: &str| pkg.imports.iter().any(|e| e.name == n);
                    let name = if item.sort == Sort::Instance && item.path.as_deref().map_or(false, has) {
                        self.rules.push("inferred:1-package-path-of-the-instance");
                        item.path.clone().unwrap()
                    } else if item.name.as_deref().map_or(false, has) {
                        self.rules.push("inferred:2-import-or-export-name");
                        item.name.clone().unwrap()
                    } else if let Some(p) = unique_path_ending_with(id, &pkg.imports) {
                        self.rules.push("inferred:3-unique-path-ending-with-local-name");
                        p.to_string()
                    } else {
                        self.rules.push("inferred:4-local-name");
                        id.clone()
                    };
                    (name, item)
                }
                Arg::Named(n, e) => {
                    let item = self.expr(e)?;
                    let name = match n {
                        ArgName::Str(s) => {
                            self.rules.push("named:string-is-exact");
                            s.clone()
                        }
                        ArgName::Ident(id) => {
                            match unique_path_ending_with(id, &pkg.imports) {
                                Some(p) => {
                                    self.rules.push("named:identifier-matches-unique-path");
                                    p.to_string()
                                }
                                _ => {
                                    self.rules.push("named:identifier-itself");
                                    id.clone()
                                }
                            }
                        }
                    };
                    (name, item)
                }
            };
            if bound.insert(name, item).is_some() {
                return Err(Fail::DuplicateArgument);
            }
        }
        // spread arguments apply after inferred and named ones, in order, to the unspecified imports
        for a in args {
            if let Arg::Spread(id) = a {
                let item = self.lookup(id)?;
                if item.sort != Sort::Instance {
                    return Err(Fail::SpreadOfNonInstance);
                }
                let mut any = false;
                for imp in &pkg.imports {
                    if bound.contains_key(&imp.name) {
                        continue;
                    }
                    if let Some(x) = self.access(&item, &imp.name) {
                        bound.insert(imp.name.clone(), x);
                        any = true;
                    }
                }
                if !any {
                    return Err(Fail::SpreadArgumentNoMatch);
                }
                self.rules.push("spread:fills-unspecified-arguments-in-order");
            }
        }
        for (name, item) in &bound {
            let Some(imp) = pkg.imports.iter().find(|e| e.name == *name) else { return Err(Fail::UnknownArgumentName) };
            if !fits(item, imp) {
                return Err(Fail::ArgumentTypeMismatch);
            }
        }
        let mut targs: BTreeMap<String, (Sort, Term)> = BTreeMap::new();
        for imp in &pkg.imports {
            match bound.get(&imp.name) {
                Some(item) => {
                    targs.insert(imp.name.clone(), (imp.sort, item.term.clone()));
                }
                None if fill => {
                    self.rules.push("fill:implicit-import");
                    self.comp.implicit_imports.insert(imp.name.clone());
                    targs.insert(imp.name.clone(), (imp.sort, Term::Import(imp.name.clone())));
                }
                None => return Err(Fail::MissingArgument),
            }
        }
        let term = Term::Inst { comp: Box::new(Term::Embedded(pkg.sha.clone())), args: targs };
        self.comp.instantiations.push(term.clone());
        Ok(Item { term, sort: Sort::Instance, ty: 1000 + p as u32, name: None, path: None, exports: pkg.exports.clone() })
    }

    fn export(&mut self, name: String, item: &Item) -> Result<(), Fail> {
        if self.comp.exports.contains_key(&name) {
            return Err(Fail::DuplicateExportName);
        }
        self.comp.exports.insert(name, (item.sort, item.term.clone()));
        Ok(())
    }

    fn stmt(&mut self, s: &Stmt) -> Result<(), Fail> {
        match s {
            Stmt::Import { id, as_name, ty } => {
                let (default_name, sort, tyid, path) = match ty {
                    ImpTy::Path(e) => (e.name.clone(), e.sort, e.ty, e.path()),
                    ImpTy::Inline(t) => (id.clone(), Sort::Instance, *t, None),
                    ImpTy::Func(f) => (id.clone(), Sort::Func, *f, None),
                };
                let name = as_name.clone().unwrap_or(default_name);
                self.rules.push(match (as_name.is_some(), ty) {
                    (true, _) => "import:as-name",
                    (false, ImpTy::Path(_)) => "import:path-is-the-name",
                    (false, _) => "import:local-name-is-the-name",
                });
                if self.comp.explicit_imports.contains(&name) {
                    return Err(Fail::DuplicateImportName);
                }
                self.comp.explicit_imports.push(name.clone());
                let exports = if sort == Sort::Instance { iface_funcs(tyid).into_iter().map(|(n, f)| Extern::func(n, f)).collect() } else { vec![] };
                let item = Item { term: Term::Import(name.clone()), sort, ty: tyid, name: Some(name), path, exports };
                if self.env.contains_key(id) {
                    return Err(Fail::DuplicateName);
                }
                self.env.insert(id.clone(), item);
                Ok(())
            }
            Stmt::Let { id, expr } => {
                let item = self.expr(expr)?;
                if self.env.contains_key(id) {
                    return Err(Fail::DuplicateName);
                }
                self.rules.push("let:names-only");
                self.env.insert(id.clone(), item);
                Ok(())
            }
            Stmt::Export { expr, opt } => {
                let item = self.expr(expr)?;
                match opt {
                    ExpOpt::As(n) => {
                        self.rules.push("export:as-name");
                        self.export(n.clone(), &item)
                    }
                    ExpOpt::None => {
                        // (the reference only shows the accessed name; the package path of an
                        // instance taking precedence mirrors inferred arguments)
                        let name = if item.sort == Sort::Instance && item.path.is_some() {
                            self.rules.push("export:package-path-of-the-instance");
                            item.path.clone().unwrap()
                        } else if let Some(n) = &item.name {
                            self.rules.push("export:import-or-accessed-name");
                            n.clone()
                        } else {
                            return Err(Fail::ExportNeedsName);
                        };
                        self.export(name, &item)
                    }
                    ExpOpt::Spread => {
                        if item.sort != Sort::Instance {
                            return Err(Fail::SpreadOfNonInstance);
                        }
                        let mut any = false;
                        for e in item.exports.clone() {
                            if self.comp.exports.contains_key(&e.name) {
                                continue;
                            }
                            let x = self.access(&item, &e.name).unwrap();
                            self.export(e.name.clone(), &x)?;
                            any = true;
                        }
                        if !any {
                            return Err(Fail::SpreadExportNoEffect);
                        }
                        self.rules.push("export:spread-skips-existing-names");
                        Ok(())
                    }
                }
            }
        }
    }
}

fn evaluate(lib: &Lib, prog: &[Stmt]) -> (Result<Composition, Fail>, Vec<&'static str>) {
    let mut ev = Eval { lib, env: IndexMap::new(), comp: Composition::default(), rules: vec![] };
    for s in prog {
        if let Err(f) = ev.stmt(s) {
            return (Err(f), ev.rules);
        }
    }
    if ev.comp.explicit_imports.iter().any(|n| ev.comp.implicit_imports.contains(n)) {
        return (Err(Fail::ImplicitImportConflictsWithExplicit), ev.rules);
    }
    (Ok(ev.comp), ev.rules)
}

// ---------------------------------------------------------------------------------------------
// generator

struct Gen<'a> {
    lib: &'a Lib,
    rng: &'a mut Rng,
    prog: Vec<Stmt>,
    k: usize,
    allow_mix: bool,
}

const LOCAL_NAMES: &[&str] = &["a", "b", "c", "d", "plain", "cfg", "x", "y", "z", "src", "one"];

impl Gen<'_> {
    fn env(&self) -> IndexMap<String, Item> {
        let mut ev = Eval { lib: self.lib, env: IndexMap::new(), comp: Composition::default(), rules: vec![] };
        for s in &self.prog {
            let _ = ev.stmt(s);
        }
        ev.env
    }

    fn fresh_id(&mut self, env: &IndexMap<String, Item>) -> String {
        for _ in 0..6 {
            let n = *self.rng.pick(LOCAL_NAMES);
            if !env.contains_key(n) && self.rng.chance(2, 3) {
                return n.to_string();
            }
        }
        self.k += 1;
        format!("v{}", self.k)
    }

    /// An expression that evaluates to something acceptable for import `imp`.
    fn expr_for(&mut self, imp: &Extern, env: &IndexMap<String, Item>, depth: usize) -> Expr {
        let fits: Vec<&String> = env.iter().filter(|(_, it)| fits(it, imp)).map(|(n, _)| n).collect();
        let insts: Vec<(&String, &Item)> = env.iter().filter(|(_, it)| it.sort == Sort::Instance && it.exports.iter().any(|e| e.sort == imp.sort && e.ty == imp.ty)).collect();
        let choice = self.rng.below(10);
        if choice < 4 && !fits.is_empty() {
            let e = Expr::Ident((*self.rng.pick(&fits)).clone());
            return if self.rng.chance(1, 5) { Expr::Nested(Box::new(e)) } else { e };
        }
        let (base, exports): (Expr, Vec<Extern>) = if choice < 8 && !insts.is_empty() {
            let (n, it) = *self.rng.pick(&insts);
            (Expr::Ident(n.clone()), it.exports.clone())
        } else {
            // a fresh instantiation of the source package (exports everything)
            let e = Expr::New(0, vec![]);
            let e = if depth < 2 && self.rng.chance(1, 3) { Expr::Nested(Box::new(e)) } else { e };
            (e, self.lib.pkgs[0].exports.clone())
        };
        let ex = exports.iter().find(|e| e.sort == imp.sort && e.ty == imp.ty).unwrap().clone();
        let last = ex.name.rsplit('/').next().unwrap().split('@').next().unwrap().to_string();
        if self.rng.chance(1, 2) && (ex.name.contains('/') || !ex.name.contains(':')) {
            Expr::Access(Box::new(base), last)
        } else {
            Expr::NamedAccess(Box::new(base), ex.name.clone())
        }
    }

    fn gen_new(&mut self, env: &IndexMap<String, Item>, depth: usize) -> Expr {
        let n_pkgs = if self.allow_mix { self.lib.pkgs.len() } else { self.lib.pkgs.len() - 1 };
        let p = self.rng.below(n_pkgs);
        let imports = self.lib.pkgs[p].imports.clone();
        let mut args: Vec<Arg> = Vec::new();
        let mut need_fill = false;
        let mut spread_done = false;
        for imp in &imports {
            match self.rng.below(12) {
                0 | 1 => need_fill = true,
                2 | 3 | 4 | 10 | 11 => {
                    // inferred: a local name bound to something that fits (the evaluator decides
                    // which argument name that really infers)
                    let fits: Vec<&String> = env.iter().filter(|(_, it)| fits(it, imp)).map(|(n, _)| n).collect();
                    if fits.is_empty() {
                        need_fill = true;
                    } else {
                        args.push(Arg::Inferred((*self.rng.pick(&fits)).clone()));
                    }
                }
                5 | 6 | 7 => {
                    let e = self.expr_for(imp, env, depth + 1);
                    let last = imp.name.rsplit('/').next().unwrap().split('@').next().unwrap().to_string();
                    let name = if self.rng.chance(1, 2) { ArgName::Str(imp.name.clone()) } else { ArgName::Ident(last) };
                    args.push(Arg::Named(name, e));
                }
                _ => {
                    let insts: Vec<&String> = env.iter().filter(|(_, it)| it.sort == Sort::Instance && it.exports.iter().any(|e| e.name == imp.name)).map(|(n, _)| n).collect();
                    if insts.is_empty() || spread_done {
                        need_fill = true;
                    } else {
                        args.push(Arg::Spread((*self.rng.pick(&insts)).clone()));
                        spread_done = true;
                    }
                }
            }
        }
        // argument order is free
        for i in (1..args.len()).rev() {
            let j = self.rng.below(i + 1);
            args.swap(i, j);
        }
        if need_fill || self.rng.chance(1, 6) {
            args.push(Arg::Fill);
        }
        Expr::New(p, args)
    }

    fn statement(&mut self) -> Stmt {
        let env = self.env();
        match self.rng.below(12) {
            0 | 1 => {
                let mut id = self.fresh_id(&env);
                let all: Vec<Extern> = self.lib.pkgs[0].exports.iter().filter(|e| e.name.contains(':')).cloned().collect();
                let ty = match self.rng.below(5) {
                    0 | 1 => ImpTy::Path(self.rng.pick(&all).clone()),
                    2 | 3 => {
                        let t = *self.rng.pick(&[T_A, T_B, T_P, T_OA, T_D]);
                        // often under the last segment of a path of that type
                        let seg = match t {
                            T_A | T_OA => "a",
                            T_B => "b",
                            T_D => "d",
                            _ => "plain",
                        };
                        if !env.contains_key(seg) && self.rng.chance(2, 3) {
                            id = seg.to_string();
                        }
                        ImpTy::Inline(t)
                    }
                    _ => ImpTy::Func(*self.rng.pick(&[F_U8, F_0])),
                };
                self.k += 1;
                let as_name = if self.rng.chance(1, 4) { Some(format!("custom{}", self.k)) } else { None };
                Stmt::Import { id, as_name, ty }
            }
            2..=6 => {
                let mut id = self.fresh_id(&env);
                if !env.contains_key("plain") && self.rng.chance(1, 8) {
                    // an instantiation has neither a path nor a name: only the local name is left
                    id = "plain".to_string();
                    return Stmt::Let { id, expr: Expr::New(PKG_P, vec![]) };
                }
                let expr = match self.rng.below(6) {
                    0 | 1 | 2 => self.gen_new(&env, 0),
                    3 => {
                        let e = self.gen_new(&env, 0);
                        Expr::Nested(Box::new(e))
                    }
                    _ => {
                        // an access of some instance
                        let insts: Vec<(&String, &Item)> = env.iter().filter(|(_, it)| it.sort == Sort::Instance && !it.exports.is_empty()).collect();
                        if insts.is_empty() {
                            Expr::New(0, vec![])
                        } else {
                            let (n, it) = *self.rng.pick(&insts);
                            let ex = self.rng.pick(&it.exports).clone();
                            let last = ex.name.rsplit('/').next().unwrap().split('@').next().unwrap().to_string();
                            if self.rng.chance(1, 2) {
                                Expr::Access(Box::new(Expr::Ident(n.clone())), last)
                            } else {
                                Expr::NamedAccess(Box::new(Expr::Ident(n.clone())), ex.name)
                            }
                        }
                    }
                };
                Stmt::Let { id, expr }
            }
            _ => {
                let names: Vec<&String> = env.keys().collect();
                let expr = if names.is_empty() || self.rng.chance(1, 5) {
                    let e = self.gen_new(&env, 0);
                    if self.rng.chance(1, 2) {
                        let p = match &e {
                            Expr::New(p, _) => *p,
                            _ => 0,
                        };
                        let ex = self.rng.pick(&self.lib.pkgs[p].exports).clone();
                        Expr::NamedAccess(Box::new(e), ex.name)
                    } else {
                        e
                    }
                } else {
                    let n = (*self.rng.pick(&names)).clone();
                    let it = &env[&n];
                    if it.sort == Sort::Instance && !it.exports.is_empty() && self.rng.chance(1, 2) {
                        let ex = self.rng.pick(&it.exports).clone();
                        let last = ex.name.rsplit('/').next().unwrap().split('@').next().unwrap().to_string();
                        if self.rng.chance(1, 2) {
                            Expr::Access(Box::new(Expr::Ident(n)), last)
                        } else {
                            Expr::NamedAccess(Box::new(Expr::Ident(n)), ex.name)
                        }
                    } else {
                        Expr::Ident(n)
                    }
                };
                self.k += 1;
                let opt = match self.rng.below(6) {
                    0 | 1 => ExpOpt::As(format!("exp{}", self.k)),
                    2 => ExpOpt::Spread,
                    _ => ExpOpt::None,
                };
                Stmt::Export { expr, opt }
            }
        }
    }
}

/// Single-fault mutations; returns the name of the mutation applied.
fn mutate(rng: &mut Rng, prog: &mut Vec<Stmt>) -> &'static str {
    fn first_new(e: &mut Expr) -> Option<&mut Vec<Arg>> {
        match e {
            Expr::New(_, args) => Some(args),
            Expr::Access(e, _) | Expr::NamedAccess(e, _) | Expr::Nested(e) => first_new(e),
            Expr::Ident(_) => None,
        }
    }
    for _ in 0..20 {
        let i = rng.below(prog.len());
        let kind = rng.below(15);
        let dup_src = prog.iter().find_map(|s| match s {
            Stmt::Let { id, .. } | Stmt::Import { id, .. } => Some(id.clone()),
            _ => None,
        });
        match (&mut prog[i], kind) {
            (Stmt::Let { expr, .. }, 0) | (Stmt::Export { expr, .. }, 0) => {
                // undefined name
                fn poison(e: &mut Expr) -> bool {
                    match e {
                        Expr::Ident(n) => {
                            *n = "nowhere".into();
                            true
                        }
                        Expr::Access(e, _) | Expr::NamedAccess(e, _) | Expr::Nested(e) => poison(e),
                        Expr::New(_, args) => {
                            for a in args.iter_mut() {
                                match a {
                                    Arg::Inferred(n) | Arg::Spread(n) => {
                                        *n = "nowhere".into();
                                        return true;
                                    }
                                    Arg::Named(_, e) => {
                                        if poison(e) {
                                            return true;
                                        }
                                    }
                                    Arg::Fill => {}
                                }
                            }
                            false
                        }
                    }
                }
                if poison(expr) {
                    return "undefined-name";
                }
            }
            (Stmt::Let { id, .. }, 1) | (Stmt::Import { id, .. }, 1) => {
                if let Some(d) = dup_src {
                    if *id != d {
                        *id = d;
                        return "duplicate-name";
                    }
                }
            }
            (Stmt::Let { expr, .. }, 2) | (Stmt::Export { expr, .. }, 2) => {
                if let Some(args) = first_new(expr) {
                    // drop an argument (and the fill): missing argument
                    args.retain(|a| !matches!(a, Arg::Fill));
                    if !args.is_empty() {
                        let j = rng.below(args.len());
                        args.remove(j);
                    }
                    return "missing-argument";
                }
            }
            (Stmt::Let { expr, .. }, 3) | (Stmt::Export { expr, .. }, 3) => {
                if let Some(args) = first_new(expr) {
                    if let Some(a) = args.iter().find(|a| matches!(a, Arg::Inferred(_) | Arg::Named(..))).cloned() {
                        args.insert(0, a);
                        return "duplicate-argument";
                    }
                }
            }
            (Stmt::Let { expr, .. }, 4) | (Stmt::Export { expr, .. }, 4) => {
                if let Some(args) = first_new(expr) {
                    if args.len() >= 2 && matches!(args.last(), Some(Arg::Fill)) {
                        let f = args.pop().unwrap();
                        args.insert(0, f);
                        return "fill-not-last";
                    }
                }
            }
            (Stmt::Let { expr, .. }, 5) | (Stmt::Export { expr, .. }, 5) => {
                // access on a non-instance: append `.zzz` twice to a function export
                let e = std::mem::replace(expr, Expr::Ident(String::new()));
                *expr = Expr::Access(Box::new(Expr::NamedAccess(Box::new(Expr::New(0, vec![])), "run".into())), "zzz".into());
                let _ = e;
                return "access-on-non-instance";
            }
            (Stmt::Let { expr, .. }, 6) | (Stmt::Export { expr, .. }, 6) => {
                let e = std::mem::replace(expr, Expr::Ident(String::new()));
                *expr = Expr::Access(Box::new(e), "no-such-export".into());
                return "missing-export";
            }
            (Stmt::Let { expr, .. }, 7) | (Stmt::Export { expr, .. }, 7) => {
                if let Some(args) = first_new(expr) {
                    args.insert(0, Arg::Named(ArgName::Str("not-an-import".into()), Expr::NamedAccess(Box::new(Expr::New(0, vec![])), "run".into())));
                    return "unknown-argument-name";
                }
            }
            (Stmt::Export { opt, .. }, 8) => {
                *opt = ExpOpt::As("dup-export".into());
                let again = prog[i].clone();
                prog.insert(i + 1, again);
                return "duplicate-export";
            }
            (Stmt::Export { expr, opt }, 9) => {
                *expr = Expr::NamedAccess(Box::new(Expr::New(0, vec![])), "run".into());
                *opt = ExpOpt::Spread;
                return "spread-of-non-instance";
            }
            (Stmt::Let { expr, .. }, 10) | (Stmt::Export { expr, .. }, 10) => {
                if let Some(args) = first_new(expr) {
                    // a spread argument naming a function
                    args.insert(0, Arg::Spread("fn-not-instance".into()));
                    prog.insert(0, Stmt::Let { id: "fn-not-instance".into(), expr: Expr::NamedAccess(Box::new(Expr::New(0, vec![])), "run".into()) });
                    return "spread-argument-of-non-instance";
                }
            }
            (Stmt::Let { expr, .. }, 12) | (Stmt::Export { expr, .. }, 12) => {
                // a named argument of the wrong type (replaces the first argument list)
                if let Expr::New(p, args) = expr {
                    if *p == 1 || *p == 2 || *p == 3 {
                        args.retain(|a| matches!(a, Arg::Fill));
                        args.insert(0, Arg::Named(ArgName::Str("ns:lib/a".into()), Expr::NamedAccess(Box::new(Expr::New(0, vec![])), "ns:lib/b".into())));
                        if !matches!(args.last(), Some(Arg::Fill)) {
                            args.push(Arg::Fill);
                        }
                        return "argument-type-mismatch";
                    }
                }
            }
            (Stmt::Let { expr, .. }, 13) | (Stmt::Export { expr, .. }, 13) => {
                // a spread argument none of whose exports is wanted
                if let Some(args) = first_new(expr) {
                    args.insert(0, Arg::Spread("useless".into()));
                    prog.insert(0, Stmt::Let { id: "useless".into(), expr: Expr::New(PKG_P, vec![]) });
                    return "spread-argument-without-match";
                }
            }
            (Stmt::Let { expr, .. }, 14) | (Stmt::Export { expr, .. }, 14) => {
                // an identifier argument name written as a string: a string is taken literally, so
                // a name that only worked through the path inference no longer names an import
                if let Some(args) = first_new(expr) {
                    for a in args.iter_mut() {
                        if let Arg::Named(n, _) = a {
                            if let ArgName::Ident(id) = n {
                                let id = id.clone();
                                *n = ArgName::Str(id);
                                return "identifier-argument-name-as-string";
                            }
                        }
                    }
                }
            }
            (Stmt::Export { expr, opt }, 11) => {
                // exporting an instantiation needs a name
                *expr = Expr::New(0, vec![]);
                *opt = ExpOpt::None;
                return "export-needs-name";
            }
            _ => {}
        }
    }
    "none"
}

// ---------------------------------------------------------------------------------------------
// wac side

/// ("ok", bytes) | ("resolve:<Variant>", message) | ("encode:<class>", message) | ("parse", ..)
fn wac_outcome(lib: &Lib, text: &str) -> (String, String, Option<Vec<u8>>) {
    let doc = match Document::parse(text) {
        Ok(d) => d,
        Err(e) => return ("parse".into(), format!("{e:?}"), None),
    };
    let mut map: IndexMap<BorrowedPackageKey, Vec<u8>> = IndexMap::new();
    for p in &lib.pkgs {
        map.insert(BorrowedPackageKey::from_name_and_version(p.name, None), p.bytes.clone());
    }
    for (n, v, b) in &lib.wit {
        map.insert(BorrowedPackageKey::from_name_and_version(n, v.as_ref()), b.clone());
    }
    match doc.resolve(map) {
        Err(e) => {
            let d = format!("{e:?}");
            let variant: String = d.chars().take_while(|c| c.is_alphanumeric()).collect();
            (format!("resolve:{variant}"), e.to_string(), None)
        }
        Ok(res) => match res.encode(wac_graph::EncodeOptions { define_components: true, validate: true, processor: None }) {
            Ok(b) => ("ok".into(), String::new(), Some(b)),
            Err(e) => {
                let m = format!("{e:#}");
                let class = if m.contains("conflicts with an item that was implicitly imported") || m.contains("implicit") { "import-conflicts-with-implicit".to_string() } else { normalize_msg(&m) };
                (format!("encode:{class}"), m, None)
            }
        },
    }
}

fn check_program(ctx: &mut Ctx, case: u64, lib: &Lib, prog: &[Stmt], mutation: &'static str) {
    let text = print_program(lib, prog);
    let (expected, rules) = evaluate(lib, prog);
    let input = json!({"text": text, "mutation": mutation, "expected": match &expected { Ok(_) => "composes".to_string(), Err(f) => format!("{f:?}") }});
    ctx.eval();
    let got = match catch(|| wac_outcome(lib, &text)) {
        Ok(g) => g,
        Err(p) => {
            ctx.count("pipeline-panic-skipped");
            ctx.note("last_panic", json!({"panic": p.to_string(), "text": text}));
            return;
        }
    };
    if got.0 == "parse" {
        ctx.count("harness:generated-program-does-not-parse");
        ctx.note("last_parse_error", json!({"error": got.1, "text": text}));
        return;
    }
    for r in &rules {
        ctx.count(&format!("rule:{r}"));
    }
    if mutation != "none" {
        ctx.count(&format!("mutation:{mutation}"));
    }
    // recorded finding (same root cause as C02/C03's): an interface imported by path under two
    // names (two import statements, or an import statement renamed with `as` plus an implicit
    // import of the path) is encoded as ONE import; the later name disappears
    let zone = match &expected {
        Ok(comp) => {
            let paths: Vec<(usize, &String)> = prog.iter().enumerate().filter_map(|(i, s)| match s {
                Stmt::Import { ty: ImpTy::Path(e), .. } => Some((i, &e.name)),
                _ => None,
            }).collect();
            prog.iter().enumerate().any(|(i, s)| match s {
                Stmt::Import { as_name: Some(_), ty: ImpTy::Path(e), .. } => comp.implicit_imports.contains(&e.name) || paths.iter().any(|(j, p)| *j != i && **p == e.name),
                _ => false,
            })
        }
        Err(_) => false,
    };
    let zone_sig = "C04:interface-imported-under-two-names-is-encoded-as-one-import";
    // recorded finding: where a component imports both `x:y/a` and a plain `a`, the identifier `a`
    // (inferred or as the name of a named argument) binds to the plain name, while the reference
    // gives the unique path ending with the identifier precedence over the identifier itself
    fn uses_mix_a(e: &Expr) -> bool {
        match e {
            Expr::Ident(_) => false,
            Expr::Access(e, _) | Expr::NamedAccess(e, _) | Expr::Nested(e) => uses_mix_a(e),
            Expr::New(p, args) => {
                args.iter().any(|a| match a {
                    Arg::Inferred(n) => *p == PKG_MIX && n == "a",
                    Arg::Named(ArgName::Ident(n), e) => (*p == PKG_MIX && n == "a") || uses_mix_a(e),
                    Arg::Named(_, e) => uses_mix_a(e),
                    _ => false,
                })
            }
        }
    }
    let zone_mix = prog.iter().any(|s| match s {
        Stmt::Let { expr, .. } | Stmt::Export { expr, .. } => uses_mix_a(expr),
        _ => false,
    });
    let mix_sig = "C04:identifier-naming-both-a-plain-import-and-the-last-segment-of-a-path-binds-to-the-plain-import";
    match (&expected, got.0.as_str()) {
        (Ok(comp), "ok") => {
            ctx.count("programs-composing");
            let bytes = got.2.unwrap();
            let d = match decode::decode(&bytes) {
                Ok(d) => d,
                Err(e) => {
                    ctx.count("harness:output-undecodable");
                    ctx.note("last_decode_error", json!(format!("{e:#}")));
                    return;
                }
            };
            let mut want: Vec<String> = comp.instantiations.iter().map(|t| t.render()).collect();
            let mut have: Vec<String> = d.instantiations.iter().map(|t| t.render()).collect();
            want.sort();
            have.sort();
            if want != have {
                let missing: Vec<&String> = want.iter().filter(|w| !have.contains(w)).collect();
                let extra: Vec<&String> = have.iter().filter(|w| !want.contains(w)).collect();
                ctx.violation(case, if zone { zone_sig } else { "C04:instantiation-wiring-differs-from-the-reference-evaluation" }, format!("per LANGUAGE.md but absent from the output: {missing:?}\nin the output but not per LANGUAGE.md: {extra:?}"), input.clone());
                return;
            }
            let mut wn: Vec<&String> = comp.exports.keys().collect();
            let mut hn: Vec<String> = d.export_names();
            wn.sort();
            hn.sort();
            if wn.iter().map(|s| s.as_str()).collect::<Vec<_>>() != hn.iter().map(|s| s.as_str()).collect::<Vec<_>>() {
                ctx.violation(case, if zone { zone_sig } else { "C04:export-names-differ-from-the-reference-evaluation" }, format!("per LANGUAGE.md {wn:?}, output {hn:?}"), input.clone());
                return;
            }
            for (name, sort, term) in &d.exports {
                let (ws, wt) = &comp.exports[name];
                if ws != sort || wt != term {
                    ctx.violation(case, if zone { zone_sig } else { "C04:export-binding-differs-from-the-reference-evaluation" }, format!("export `{name}`: per LANGUAGE.md {} {}, output {} {}", ws.name(), wt.render(), sort.name(), term.render()), input.clone());
                    return;
                }
            }
            let mut wi: Vec<String> = comp.explicit_imports.iter().cloned().chain(comp.implicit_imports.iter().cloned()).collect();
            let mut hi = d.import_names();
            wi.sort();
            hi.sort();
            if wi != hi {
                ctx.violation(case, if zone { zone_sig } else { "C04:import-names-differ-from-the-reference-evaluation" }, format!("per LANGUAGE.md {wi:?}, output {hi:?}"), input.clone());
                return;
            }
            ctx.count("compositions-equal-to-the-reference-evaluation");
            ctx.add("instantiations-compared", want.len() as u64);
            ctx.add("exports-compared", comp.exports.len() as u64);
        }
        (Ok(_), _) | (Err(_), _) if zone_mix && !matches!(&expected, Err(f) if f.matches(&got.0)) => {
            ctx.violation(case, mix_sig, format!("per LANGUAGE.md: {}; wac: {} {}", match &expected { Ok(_) => "composes".to_string(), Err(f) => format!("{f:?}") }, got.0, got.1), input.clone());
        }
        (Ok(_), other) => {
            ctx.violation(case, &format!("C04:well-formed-program-rejected:{other}"), format!("LANGUAGE.md makes this program well-formed; wac: {}", got.1), input.clone());
        }
        (Err(f), "ok") => {
            ctx.violation(case, &format!("C04:ill-formed-program-composed:{f:?}"), format!("LANGUAGE.md makes this program ill-formed ({f:?}) but wac composed it"), input.clone());
        }
        (Err(f), other) => {
            if f.matches(other) {
                ctx.count("ill-formed-programs-rejected-with-the-right-diagnostic");
                ctx.count(&format!("fault:{f:?}"));
            } else {
                ctx.violation(case, &format!("C04:wrong-diagnostic:{f:?}:{other}"), format!("expected the diagnostic for {f:?}, wac reports {other}: {}", got.1), input.clone());
            }
        }
    }
    let mut rs: Vec<&str> = rules.clone();
    rs.sort();
    rs.dedup();
    ctx.shape_str(&format!("{rs:?}|{mutation}|{}", match &expected { Ok(c) => format!("ok:{}:{}", c.instantiations.len(), c.exports.len()), Err(f) => format!("{f:?}") }));
    if ctx.samples.len() < 2 && rules.len() >= 6 {
        ctx.sample(json!({"case": case, "text": text}));
    }
}

/// Directed witness of the recorded finding.
fn run_witness(ctx: &mut Ctx, lib: &Lib) {
    let case = crate::witness::WITNESS_BASE;
    if !ctx.mine(case) {
        return;
    }
    ctx.begin(case);
    let a = lib.pkgs[0].exports.iter().find(|e| e.name == "ns:lib/a").unwrap().clone();
    let prog = vec![
        Stmt::Import { id: "x".into(), as_name: Some("custom".into()), ty: ImpTy::Path(a) },
        Stmt::Let { id: "o".into(), expr: Expr::New(1, vec![Arg::Fill]) },
    ];
    ctx.count("witness-run");
    check_program(ctx, case, lib, &prog, "none");
    let case = crate::witness::WITNESS_BASE + 1;
    ctx.begin(case);
    let prog = vec![
        Stmt::Let { id: "s".into(), expr: Expr::New(0, vec![]) },
        Stmt::Let { id: "d".into(), expr: Expr::New(PKG_MIX, vec![Arg::Named(ArgName::Ident("a".into()), Expr::NamedAccess(Box::new(Expr::Ident("s".into())), "ns:lib/a".into())), Arg::Fill]) },
    ];
    check_program(ctx, case, lib, &prog, "none");
}

pub fn run(ctx: &mut Ctx) {
    let lib = match build_lib() {
        Ok(l) => l,
        Err(e) => {
            ctx.note("harness_error", json!(e));
            ctx.count("harness:library-build-failed");
            return;
        }
    };
    run_witness(ctx, &lib);
    let total = ctx.n(100_000, 40_000_000);
    for case in ctx.cases(total) {
        if ctx.out_of_budget() {
            ctx.count("budget-stop");
            break;
        }
        ctx.begin(case);
        let mut rng = ctx.rng(case);
        let n = rng.range(2, 9);
        let allow_mix = rng.chance(1, 8);
        let mut g = Gen { lib: &lib, rng: &mut rng, prog: vec![], k: 0, allow_mix };
        // the first statements bring a source of everything into scope most of the time
        if g.rng.chance(2, 3) {
            g.prog.push(Stmt::Let { id: "s".into(), expr: Expr::New(0, vec![]) });
        }
        let mut tries = 0;
        while g.prog.len() < n && tries < 40 {
            tries += 1;
            let st = g.statement();
            g.prog.push(st);
            // keep the program well-formed while it is being built
            if evaluate(&lib, &g.prog).0.is_err() && g.rng.chance(9, 10) {
                g.prog.pop();
            }
        }
        let mut prog = g.prog;
        if prog.is_empty() {
            continue;
        }
        let mutation = if rng.chance(1, 3) { mutate(&mut rng, &mut prog) } else { "none" };
        check_program(ctx, case, &lib, &prog, mutation);
    }
}

// ---------------------------------------------------------------------------------------------
// C03's statement-order workload (lives here because it reuses this module's programs)

fn idents_of(e: &Expr, out: &mut Vec<String>) {
    match e {
        Expr::Ident(i) => out.push(i.clone()),
        Expr::Access(e, _) | Expr::NamedAccess(e, _) | Expr::Nested(e) => idents_of(e, out),
        Expr::New(_, args) => {
            for a in args {
                match a {
                    Arg::Inferred(n) | Arg::Spread(n) => out.push(n.clone()),
                    Arg::Named(_, e) => idents_of(e, out),
                    Arg::Fill => {}
                }
            }
        }
    }
}

/// The interface of an encoded composition: import name -> (sort, what its type exports),
/// export name -> sort; both sorted by name.
fn interface_of(bytes: &[u8]) -> Option<(Vec<String>, Vec<String>)> {
    let d = decode::decode(bytes).ok()?;
    let mut imports: Vec<String> = d.imports.iter().map(|i| {
        let mut t = format!("{:?}", i.ty);
        if let decode::TypeEntry::Instance { exports } = &i.ty {
            let mut e: Vec<String> = exports.iter().map(|(n, s)| format!("{n}:{}", s.name())).collect();
            e.sort();
            t = format!("instance{e:?}");
        }
        format!("{} {} {t}", i.name, i.sort.name())
    }).collect();
    let mut exports: Vec<String> = d.exports.iter().map(|(n, s, _)| format!("{n} {}", s.name())).collect();
    imports.sort();
    exports.sort();
    Some((imports, exports))
}

/// The recorded finding shared with C04: an interface imported by path under two names.
fn two_names_zone(prog: &[Stmt], comp: &Composition) -> bool {
    let paths: Vec<(usize, &String)> = prog.iter().enumerate().filter_map(|(i, s)| match s {
        Stmt::Import { ty: ImpTy::Path(e), .. } => Some((i, &e.name)),
        _ => None,
    }).collect();
    prog.iter().enumerate().any(|(i, s)| match s {
        Stmt::Import { as_name: Some(_), ty: ImpTy::Path(e), .. } => comp.implicit_imports.contains(&e.name) || paths.iter().any(|(j, p)| *j != i && **p == e.name),
        _ => false,
    })
}

fn compare_orders(ctx: &mut Ctx, case: u64, lib: &Lib, prog: &[Stmt], permuted: &[Stmt]) {
    let lib_ref = lib;
    let lib = lib_ref;
        let zone = match evaluate(lib, permuted).0 {
            Ok(comp) => two_names_zone(permuted, &comp),
            Err(_) => {
                ctx.count("order:permutation-ill-formed-per-reference");
                return;
            }
        };
        let (t1, t2) = (print_program(lib, prog), print_program(lib, permuted));
        let input = json!({"text": t1, "permuted": t2});
        ctx.eval();
        let (Ok(a), Ok(b)) = (catch(|| wac_outcome(lib, &t1)), catch(|| wac_outcome(lib, &t2))) else {
            ctx.count("pipeline-panic-skipped");
            return;
        };
        if a.0 != "ok" || b.0 != "ok" {
            if (a.0 == "ok") != (b.0 == "ok") {
                ctx.violation(case, "C03:outcome-depends-on-statement-order", format!("original order: {} {}; permuted order: {} {}", a.0, a.1, b.0, b.1), input);
            } else {
                ctx.count("order:both-orders-rejected");
            }
            return;
        }
        let (Some(ia), Some(ib)) = (interface_of(a.2.as_ref().unwrap()), interface_of(b.2.as_ref().unwrap())) else {
            ctx.count("harness:output-undecodable");
            return;
        };
        if ia != ib {
            ctx.violation(case, if zone { "C03:interface-depends-on-statement-order:interface-imported-under-two-names" } else { "C03:interface-depends-on-statement-order" }, format!("original order: imports {:?} exports {:?}\npermuted order: imports {:?} exports {:?}", ia.0, ia.1, ib.0, ib.1), input);
        } else {
            ctx.count("order:interfaces-equal");
            if ia.0.len() >= 2 {
                ctx.count("order:interfaces-equal-with-several-imports");
            }
        }
}

/// C03: "the interface does not change when independent nodes are created in a different order".
/// A well-formed program is re-ordered by a random dependency-preserving permutation of its
/// statements (export statements keep their relative order, since a spread export depends on what
/// was exported before it); both orders must resolve, encode and have the same interface.
pub fn statement_order_workload(ctx: &mut Ctx) {
    let lib = match build_lib() {
        Ok(l) => l,
        Err(e) => {
            ctx.note("harness_error", json!(e));
            return;
        }
    };
    // directed witness of the recorded finding: one interface imported under two names
    let wcase = crate::witness::WITNESS_BASE + 7;
    if ctx.mine(wcase) {
        ctx.begin(wcase);
        let a = lib.pkgs[0].exports.iter().find(|e| e.name == "ns:lib/a").unwrap().clone();
        let p1 = vec![
            Stmt::Import { id: "x".into(), as_name: None, ty: ImpTy::Path(a.clone()) },
            Stmt::Import { id: "y".into(), as_name: Some("custom".into()), ty: ImpTy::Path(a) },
        ];
        let p2 = vec![p1[1].clone(), p1[0].clone()];
        compare_orders(ctx, wcase, &lib, &p1, &p2);
    }
    let base = 1u64 << 32;
    let total = ctx.n(20_000, 4_000_000);
    let ks: Vec<u64> = match ctx.only_case {
        Some(c) if c >= base => vec![c - base],
        Some(_) => vec![],
        None => ctx.cases(total),
    };
    for k in ks {
        let case = base + k;
        if ctx.out_of_budget() {
            ctx.count("budget-stop");
            break;
        }
        ctx.begin(case);
        let mut rng = ctx.rng(case);
        let n = rng.range(3, 9);
        let mut g = Gen { lib: &lib, rng: &mut rng, prog: vec![], k: 0, allow_mix: false };
        let mut tries = 0;
        while g.prog.len() < n && tries < 40 {
            tries += 1;
            let st = g.statement();
            g.prog.push(st);
            if evaluate(&lib, &g.prog).0.is_err() {
                g.prog.pop();
            }
        }
        let prog = g.prog;
        if prog.len() < 3 {
            continue;
        }
        // dependency-preserving random permutation
        let defs: Vec<Option<&String>> = prog.iter().map(|s| match s {
            Stmt::Import { id, .. } | Stmt::Let { id, .. } => Some(id),
            Stmt::Export { .. } => None,
        }).collect();
        let uses: Vec<Vec<String>> = prog.iter().map(|s| {
            let mut v = Vec::new();
            match s {
                Stmt::Let { expr, .. } | Stmt::Export { expr, .. } => idents_of(expr, &mut v),
                Stmt::Import { .. } => {}
            }
            v
        }).collect();
        let mut placed: Vec<usize> = Vec::new();
        let mut remaining: Vec<usize> = (0..prog.len()).collect();
        while !remaining.is_empty() {
            let ready: Vec<usize> = remaining.iter().copied().filter(|i| {
                let deps_ok = uses[*i].iter().all(|u| placed.iter().any(|p| defs[*p] == Some(u)));
                // exports keep their relative order
                let export_ok = !matches!(prog[*i], Stmt::Export { .. }) || !remaining.iter().any(|j| *j < *i && matches!(prog[*j], Stmt::Export { .. }));
                deps_ok && export_ok
            }).collect();
            if ready.is_empty() {
                break;
            }
            let pick = *rng.pick(&ready);
            placed.push(pick);
            remaining.retain(|i| *i != pick);
        }
        if !remaining.is_empty() || placed.iter().enumerate().all(|(i, p)| i == *p) {
            ctx.count("order:no-other-order");
            continue;
        }
        let permuted: Vec<Stmt> = placed.iter().map(|i| prog[*i].clone()).collect();
        compare_orders(ctx, case, &lib, &prog, &permuted);
        ctx.shape_str(&format!("order|{:?}", placed));
    }
}

// ---------------------------------------------------------------------------------------------
// C16's WAC-program workload: digests of resolving + encoding generated programs

pub struct ProgramDigester {
    lib: Lib,
}

impl ProgramDigester {
    pub fn new() -> Result<Self, String> {
        Ok(ProgramDigester { lib: build_lib()? })
    }

    /// (program text, outcome digest) of the well-formed program drawn from `seed`; spreads that
    /// fill several arguments, fills, nested `new`s and spread exports are all common.
    pub fn digest(&self, seed: u64) -> Option<(String, String)> {
        let mut rng = Rng::new(seed);
        let n = rng.range(3, 9);
        let mut g = Gen { lib: &self.lib, rng: &mut rng, prog: vec![], k: 0, allow_mix: false };
        g.prog.push(Stmt::Let { id: "s".into(), expr: Expr::New(0, vec![]) });
        let mut tries = 0;
        while g.prog.len() < n && tries < 40 {
            tries += 1;
            let st = g.statement();
            g.prog.push(st);
            if evaluate(&self.lib, &g.prog).0.is_err() {
                g.prog.pop();
            }
        }
        let text = print_program(&self.lib, &g.prog);
        let out = catch(|| wac_outcome(&self.lib, &text)).ok()?;
        let digest = match &out.2 {
            Some(b) => format!("ok:{}", sha256_hex(b)),
            None => format!("{}:{}", out.0, sha256_hex(out.1.as_bytes())),
        };
        Some((text, digest))
    }
}
