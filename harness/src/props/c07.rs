//! C07 — argument type checking agrees with the component-model subtype relation.
//!
//! Monitor: for a small-scope universe of item types (emitted as imports of one component, so
//! that wac's decoder and the reference validator read the very same bytes) every ordered pair
//! is given to `SubtypeChecker::is_subtype`, to `set_instantiation_argument`, and to wasmparser's
//! `ComponentEntityType::is_subtype_of`; algebraic laws (reflexivity across independent decodes,
//! transitivity, memo independence) are checked on the verdict matrix.

use crate::ctx::Ctx;
use crate::decode::validate;
use crate::util::{catch, normalize_msg, Rng};
use crate::witgen::{self, LibOpts, WorldItem, WorldModel};
use serde_json::json;
use std::collections::HashSet;
use wac_graph::{CompositionGraph, EncodeOptions, InstantiationArgumentError};
use wac_types::{ItemKind, Package, SubtypeChecker, Types};

#[derive(Clone, Debug)]
pub struct Item {
    pub tag: String,
    pub wat: String,
    pub category: &'static str,
    pub has_resource: bool,
}

fn it(category: &'static str, tag: &str, wat: &str) -> Item {
    Item { tag: tag.to_string(), wat: wat.to_string(), category, has_resource: false }
}

fn value_types() -> Vec<(&'static str, &'static str)> {
    vec![
        ("u8", "u8"),
        ("u32", "u32"),
        ("s32", "s32"),
        ("u64", "u64"),
        ("f32", "f32"),
        ("bool", "bool"),
        ("char", "char"),
        ("string", "string"),
        ("list-u8", "(list u8)"),
        ("list-string", "(list string)"),
        ("list-list-u8", "(list (list u8))"),
        ("option-u8", "(option u8)"),
        ("option-string", "(option string)"),
        ("option-option-u8", "(option (option u8))"),
        ("result", "(result)"),
        ("result-u8", "(result u8)"),
        ("result-err-u8", "(result (error u8))"),
        ("result-u8-string", "(result u8 (error string))"),
        ("result-string-u8", "(result string (error u8))"),
        ("tuple-u8", "(tuple u8)"),
        ("tuple-u8-string", "(tuple u8 string)"),
        ("tuple-string-u8", "(tuple string u8)"),
        ("tuple-u8-u8-u8", "(tuple u8 u8 u8)"),
        ("list-option-u8", "(list (option u8))"),
        ("option-list-u8", "(option (list u8))"),
    ]
}

/// Function items: every value type as single parameter and as result, plus arity / name /
/// async variations.
pub fn func_items() -> Vec<Item> {
    let mut v = Vec::new();
    v.push(it("func", "f()", "(func)"));
    v.push(it("func", "f()async", "(func async)"));
    for (tag, t) in value_types() {
        v.push(it("func", &format!("f(x:{tag})"), &format!("(func (param \"x\" {t}))")));
        v.push(it("func", &format!("f()->{tag}"), &format!("(func (result {t}))")));
    }
    v.push(it("func", "f(y:u8)", "(func (param \"y\" u8))"));
    v.push(it("func", "f(x:u8,y:u8)", "(func (param \"x\" u8) (param \"y\" u8))"));
    v.push(it("func", "f(y:u8,x:u8)", "(func (param \"y\" u8) (param \"x\" u8))"));
    v.push(it("func", "f(x:u8,y:string)", "(func (param \"x\" u8) (param \"y\" string))"));
    v.push(it("func", "f(x:u8)->u8", "(func (param \"x\" u8) (result u8))"));
    v.push(it("func", "f(x:u8)->u8 async", "(func async (param \"x\" u8) (result u8))"));
    v.push(it("func", "f(x:u8)->string", "(func (param \"x\" u8) (result string))"));
    v
}

/// Named (record/variant/enum/flags) types can only be compared through instance types that
/// export them; each item exports a type `t` and a function `f` using it.
pub fn named_type_items() -> Vec<Item> {
    let defs: Vec<(&str, &str)> = vec![
        ("record{a:u8}", "(record (field \"a\" u8))"),
        ("record{b:u8}", "(record (field \"b\" u8))"),
        ("record{a:u32}", "(record (field \"a\" u32))"),
        ("record{a:u8,b:u8}", "(record (field \"a\" u8) (field \"b\" u8))"),
        ("record{b:u8,a:u8}", "(record (field \"b\" u8) (field \"a\" u8))"),
        ("record{a:list-u8}", "(record (field \"a\" (list u8)))"),
        ("variant{x}", "(variant (case \"x\"))"),
        ("variant{y}", "(variant (case \"y\"))"),
        ("variant{x,y}", "(variant (case \"x\") (case \"y\"))"),
        ("variant{y,x}", "(variant (case \"y\") (case \"x\"))"),
        ("variant{x(u8)}", "(variant (case \"x\" u8))"),
        ("variant{x(string)}", "(variant (case \"x\" string))"),
        ("variant{x(u8),y}", "(variant (case \"x\" u8) (case \"y\"))"),
        ("enum{p}", "(enum \"p\")"),
        ("enum{p,q}", "(enum \"p\" \"q\")"),
        ("enum{q,p}", "(enum \"q\" \"p\")"),
        ("enum{p,q,r}", "(enum \"p\" \"q\" \"r\")"),
        ("flags{m}", "(flags \"m\")"),
        ("flags{m,n}", "(flags \"m\" \"n\")"),
        ("flags{n,m}", "(flags \"n\" \"m\")"),
        ("alias-u8", "u8"),
        ("alias-string", "string"),
        ("alias-list-u8", "(list u8)"),
    ];
    defs.iter()
        .map(|(tag, d)| {
            it(
                "named-type",
                &format!("inst{{t={tag}}}"),
                &format!("(instance (type $t0 {d}) (export \"t\" (type $t (eq $t0))) (export \"f\" (func (param \"x\" $t) (result $t))))"),
            )
        })
        .collect()
}

pub fn instance_items() -> Vec<Item> {
    let mut v = vec![
        it("instance", "inst{}", "(instance)"),
        it("instance", "inst{f}", "(instance (export \"f\" (func)))"),
        it("instance", "inst{g}", "(instance (export \"g\" (func)))"),
        it("instance", "inst{f,g}", "(instance (export \"f\" (func)) (export \"g\" (func)))"),
        it("instance", "inst{g,f}", "(instance (export \"g\" (func)) (export \"f\" (func)))"),
        it("instance", "inst{f(x:u8)}", "(instance (export \"f\" (func (param \"x\" u8))))"),
        it("instance", "inst{f,g,h}", "(instance (export \"f\" (func)) (export \"g\" (func)) (export \"h\" (func (result string))))"),
        it("instance", "inst{v:u8}", "(instance (export \"v\" (value u8)))"),
        it("instance", "inst{v:string}", "(instance (export \"v\" (value string)))"),
        it("instance", "inst{v:u8,f}", "(instance (export \"v\" (value u8)) (export \"f\" (func)))"),
        it("instance", "inst{i:inst{f}}", "(instance (export \"i\" (instance (export \"f\" (func)))))"),
        it("instance", "inst{i:inst{f,g}}", "(instance (export \"i\" (instance (export \"f\" (func)) (export \"g\" (func)))))"),
        it("instance", "inst{i:inst{}}", "(instance (export \"i\" (instance)))"),
        it("instance", "inst{c:comp{}}", "(instance (export \"c\" (component)))"),
        it("instance", "inst{c:comp{imp f}}", "(instance (export \"c\" (component (import \"f\" (func)))))"),
        it("instance", "inst{m:module{}}", "(instance (export \"m\" (core module)))"),
        it("instance", "inst{m:module{exp f}}", "(instance (export \"m\" (core module (export \"f\" (func)))))"),
        it("instance", "inst{t:u8}", "(instance (type u8) (export \"t\" (type (eq 0))))"),
        it("instance", "inst{t:string}", "(instance (type string) (export \"t\" (type (eq 0))))"),
    ];
    v.push(Item {
        tag: "inst{r:resource}".into(),
        wat: "(instance (export \"r\" (type (sub resource))))".into(),
        category: "instance",
        has_resource: true,
    });
    for (tag, handle) in [("inst{r:resource,f(own r)}", "(own $r)"), ("inst{r:resource,f()->own r}", ""), ("inst{r:resource,f(list<borrow r>)}", "(list (borrow $r))")] {
        let wat = if handle.is_empty() {
            "(instance (export \"r\" (type $r (sub resource))) (export \"f\" (func (result (own $r)))))".to_string()
        } else {
            format!("(instance (export \"r\" (type $r (sub resource))) (export \"f\" (func (param \"x\" {handle}))))")
        };
        v.push(Item { tag: tag.into(), wat, category: "instance", has_resource: true });
    }
    v.push(Item {
        tag: "inst{r:resource,f(borrow r)}".into(),
        wat: "(instance (export \"r\" (type $r (sub resource))) (export \"f\" (func (param \"x\" (borrow $r)))))".into(),
        category: "instance",
        has_resource: true,
    });
    v
}

pub fn component_items() -> Vec<Item> {
    vec![
        it("component", "comp{}", "(component)"),
        it("component", "comp{imp f}", "(component (import \"f\" (func)))"),
        it("component", "comp{imp g}", "(component (import \"g\" (func)))"),
        it("component", "comp{imp f,g}", "(component (import \"f\" (func)) (import \"g\" (func)))"),
        it("component", "comp{exp e}", "(component (export \"e\" (func)))"),
        it("component", "comp{exp e,d}", "(component (export \"e\" (func)) (export \"d\" (func)))"),
        it("component", "comp{imp f;exp e}", "(component (import \"f\" (func)) (export \"e\" (func)))"),
        it("component", "comp{imp f,g;exp e}", "(component (import \"f\" (func)) (import \"g\" (func)) (export \"e\" (func)))"),
        it("component", "comp{imp f;exp e,d}", "(component (import \"f\" (func)) (export \"e\" (func)) (export \"d\" (func)))"),
        it("component", "comp{imp f(x:u8)}", "(component (import \"f\" (func (param \"x\" u8))))"),
        it("component", "comp{exp e->u8}", "(component (export \"e\" (func (result u8))))"),
        it("component", "comp{imp i:inst{f}}", "(component (import \"i\" (instance (export \"f\" (func)))))"),
        it("component", "comp{imp i:inst{f,g}}", "(component (import \"i\" (instance (export \"f\" (func)) (export \"g\" (func)))))"),
        it("component", "comp{exp i:inst{f}}", "(component (export \"i\" (instance (export \"f\" (func)))))"),
        it("component", "comp{exp i:inst{f,g}}", "(component (export \"i\" (instance (export \"f\" (func)) (export \"g\" (func)))))"),
        it("component", "comp{imp v:u8}", "(component (import \"v\" (value u8)))"),
        it("component", "comp{imp v:string}", "(component (import \"v\" (value string)))"),
        it("component", "comp{exp v:u8}", "(component (export \"v\" (value u8)))"),
        // resources inside an imported instance: component-level subtyping maps the abstract
        // resources of the two sides onto each other, so the reference verdict is meaningful here
        it("component", "comp{imp i:inst{r}}", "(component (import \"i\" (instance (export \"r\" (type (sub resource))))))"),
        it("component", "comp{imp i:inst{r,f(own r)}}", "(component (import \"i\" (instance (export \"r\" (type $r (sub resource))) (export \"f\" (func (param \"x\" (own $r)))))))"),
        it("component", "comp{imp i:inst{r,f(borrow r)}}", "(component (import \"i\" (instance (export \"r\" (type $r (sub resource))) (export \"f\" (func (param \"x\" (borrow $r)))))))"),
        it("component", "comp{imp i:inst{r,f()->own r}}", "(component (import \"i\" (instance (export \"r\" (type $r (sub resource))) (export \"f\" (func (result (own $r)))))))"),
        it("component", "comp{imp i:inst{r,f(list<borrow r>)}}", "(component (import \"i\" (instance (export \"r\" (type $r (sub resource))) (export \"f\" (func (param \"x\" (list (borrow $r))))))))"),
        it("component", "comp{imp i:inst{r,f(list<own r>)}}", "(component (import \"i\" (instance (export \"r\" (type $r (sub resource))) (export \"f\" (func (param \"x\" (list (own $r))))))))"),
    ]
}

pub fn module_items() -> Vec<Item> {
    let mut v = vec![
        it("module", "mod{}", "(core module)"),
        it("module", "mod{imp f}", "(core module (import \"a\" \"f\" (func)))"),
        it("module", "mod{imp f(i32)}", "(core module (import \"a\" \"f\" (func (param i32))))"),
        it("module", "mod{imp f,g}", "(core module (import \"a\" \"f\" (func)) (import \"a\" \"g\" (func)))"),
        it("module", "mod{exp e}", "(core module (export \"e\" (func)))"),
        it("module", "mod{exp e(i32)->i64}", "(core module (export \"e\" (func (param i32) (result i64))))"),
        it("module", "mod{exp e,d}", "(core module (export \"e\" (func)) (export \"d\" (func)))"),
        it("module", "mod{imp f;exp e}", "(core module (import \"a\" \"f\" (func)) (export \"e\" (func)))"),
    ];
    for (tag, m) in [
        ("mem1", "(memory 1)"),
        ("mem2", "(memory 2)"),
        ("mem1-2", "(memory 1 2)"),
        ("mem1-3", "(memory 1 3)"),
        ("mem2-2", "(memory 2 2)"),
        ("mem64-1", "(memory i64 1)"),
        ("mem1-2-shared", "(memory 1 2 shared)"),
    ] {
        v.push(it("module", &format!("mod{{imp {tag}}}"), &format!("(core module (import \"a\" \"m\" {m}))")));
        v.push(it("module", &format!("mod{{exp {tag}}}"), &format!("(core module (export \"m\" {m}))")));
    }
    for (tag, t) in [
        ("tab1", "(table 1 funcref)"),
        ("tab2", "(table 2 funcref)"),
        ("tab1-2", "(table 1 2 funcref)"),
        ("tab1-ext", "(table 1 externref)"),
        ("tab64-1", "(table i64 1 funcref)"),
    ] {
        v.push(it("module", &format!("mod{{imp {tag}}}"), &format!("(core module (import \"a\" \"t\" {t}))")));
        v.push(it("module", &format!("mod{{exp {tag}}}"), &format!("(core module (export \"t\" {t}))")));
    }
    for (tag, g) in [("g-i32", "(global i32)"), ("g-mut-i32", "(global (mut i32))"), ("g-i64", "(global i64)"), ("g-funcref", "(global funcref)")] {
        v.push(it("module", &format!("mod{{imp {tag}}}"), &format!("(core module (import \"a\" \"g\" {g}))")));
        v.push(it("module", &format!("mod{{exp {tag}}}"), &format!("(core module (export \"g\" {g}))")));
    }
    v.push(it("module", "mod{imp tag(i32)}", "(core module (import \"a\" \"x\" (tag (param i32))))"));
    v.push(it("module", "mod{imp tag()}", "(core module (import \"a\" \"x\" (tag)))"));
    v
}

/// Type items: a TYPE import whose definition is an instance or component type (what a WIT
/// package exports for an interface / world). The item's `wat` starts with `TYPEOF:` followed by
/// the type body; `decode_items` defines the type and imports `(type (eq ..))`.
pub fn type_items() -> Vec<Item> {
    let bodies: Vec<(&str, &str)> = vec![
        ("type=inst{}", "(instance)"),
        ("type=inst{f}", "(instance (export \"f\" (func)))"),
        ("type=inst{g}", "(instance (export \"g\" (func)))"),
        ("type=inst{f,g}", "(instance (export \"f\" (func)) (export \"g\" (func)))"),
        ("type=inst{f(x:u8)}", "(instance (export \"f\" (func (param \"x\" u8))))"),
        ("type=inst{i:inst{f}}", "(instance (export \"i\" (instance (export \"f\" (func)))))"),
        ("type=comp{}", "(component)"),
        ("type=comp{imp f}", "(component (import \"f\" (func)))"),
        ("type=comp{imp f,g}", "(component (import \"f\" (func)) (import \"g\" (func)))"),
        ("type=comp{exp e}", "(component (export \"e\" (func)))"),
        ("type=comp{exp e,d}", "(component (export \"e\" (func)) (export \"d\" (func)))"),
        ("type=comp{imp f;exp e}", "(component (import \"f\" (func)) (export \"e\" (func)))"),
        ("type=u8", "u8"),
        ("type=list-u8", "(list u8)"),
    ];
    bodies.iter().map(|(tag, b)| it("type-item", tag, &format!("TYPEOF:{b}"))).collect()
}

pub struct Decoded {
    pub bytes: Vec<u8>,
    pub types: Types,
    pub kinds: Vec<ItemKind>,
}

fn decode_items(items: &[Item]) -> Result<Decoded, String> {
    let mut wat = String::from("(component\n");
    for (i, item) in items.iter().enumerate() {
        match item.wat.strip_prefix("TYPEOF:") {
            Some(body) => wat.push_str(&format!("  (type $ty{i} {body})\n  (import \"a{i}\" (type (eq $ty{i})))\n")),
            None => wat.push_str(&format!("  (import \"a{i}\" {})\n", item.wat)),
        }
    }
    wat.push(')');
    let bytes = wat::parse_str(&wat).map_err(|e| format!("harness wat error: {e}"))?;
    validate(&bytes).map_err(|e| format!("harness universe is not a valid component: {e}"))?;
    let mut types = Types::default();
    let pkg = Package::from_bytes("test:universe", None, bytes.clone(), &mut types).map_err(|e| format!("wac cannot load the universe: {e:#}"))?;
    let world = &types[pkg.ty()];
    let kinds: Vec<ItemKind> = (0..items.len()).map(|i| world.imports[&format!("a{i}")]).collect();
    Ok(Decoded { bytes, types, kinds })
}

/// Reference verdicts: wasmparser's own subtype relation on the same bytes.
fn reference_matrix(bytes: &[u8], n: usize) -> Result<Vec<Vec<bool>>, String> {
    let mut v = wasmparser::Validator::new_with_features(wasmparser::WasmFeatures::all());
    let types = v.validate_all(bytes).map_err(|e| e.to_string())?;
    let tr = types.as_ref();
    let ents: Vec<wasmparser::component_types::ComponentEntityType> = (0..n)
        .map(|i| tr.component_entity_type_of_import(&format!("a{i}")).ok_or_else(|| format!("no import a{i}")))
        .collect::<Result<_, _>>()?;
    let mut m = vec![vec![false; n]; n];
    for i in 0..n {
        for j in 0..n {
            m[i][j] = wasmparser::component_types::ComponentEntityType::is_subtype_of(&ents[i], tr, &ents[j], tr);
        }
    }
    Ok(m)
}

fn check_category(ctx: &mut Ctx, case: u64, name: &str, items: &[Item], rng: &mut Rng) {
    ctx.begin(case);
    let d1 = match decode_items(items) {
        Ok(d) => d,
        Err(e) => {
            ctx.count("harness:universe-rejected");
            ctx.note(&format!("universe_error:{name}"), json!(e));
            return;
        }
    };
    let d2 = decode_items(items).expect("second decode");
    let n = items.len();
    let reference = match reference_matrix(&d1.bytes, n) {
        Ok(m) => m,
        Err(e) => {
            ctx.note(&format!("reference_error:{name}"), json!(e));
            return;
        }
    };
    // (1) fresh-memo verdicts vs the reference
    let mut wac = vec![vec![false; n]; n];
    for i in 0..n {
        for j in 0..n {
            ctx.eval();
            let mut cache = HashSet::new();
            let r = catch(|| SubtypeChecker::new(&mut cache).is_subtype(d1.kinds[i], &d1.types, d1.kinds[j], &d1.types).map_err(|e| format!("{e:#}")));
            let verdict = match r {
                Ok(r) => r,
                Err(p) => {
                    ctx.violation(case, &format!("C07:checker-panic:{name}"), format!("{} <: {}: {p}", items[i].tag, items[j].tag), json!({"a": items[i].wat, "b": items[j].wat}));
                    continue;
                }
            };
            wac[i][j] = verdict.is_ok();
            ctx.count(&format!("{name}:wac-{}", if wac[i][j] { "accepts" } else { "rejects" }));
            ctx.count(&format!("{name}:ref-{}", if reference[i][j] { "accepts" } else { "rejects" }));
            if i != j {
                ctx.shape_str(&format!("{name}|{}|{}", items[i].tag, items[j].tag));
            }
            let resourceful = items[i].has_resource || items[j].has_resource;
            // wasmparser 0.247's module-type matching ignores the table64 flag; wac's stricter
            // answer follows the core spec and is pinned by the repository's own test
            // `mismatched_table64_is_rejected`, so such pairs are not compared with the reference
            let table64_quirk = items[i].tag.contains("tab") && items[j].tag.contains("tab") && (items[i].tag.contains("tab64") != items[j].tag.contains("tab64"));
            if table64_quirk {
                ctx.count("reference-quirk:table64-flag-not-compared");
            }
            if wac[i][j] != reference[i][j] && !resourceful && !table64_quirk {
                ctx.violation(
                    case,
                    &format!("C07:verdict-differs:{name}:{} <: {}:wac={}:ref={}", items[i].tag, items[j].tag, wac[i][j], reference[i][j]),
                    format!("`{}` <: `{}`: wac says {} ({}), the reference validator says {}", items[i].tag, items[j].tag, wac[i][j], verdict.err().unwrap_or_default(), reference[i][j]),
                    json!({"a": items[i].wat, "b": items[j].wat}),
                );
            }
        }
    }
    // (2) reflexivity across two independent decodes, both directions
    for i in 0..n {
        for (x, xt, y, yt, dir) in [(d1.kinds[i], &d1.types, d2.kinds[i], &d2.types, "1<:2"), (d2.kinds[i], &d2.types, d1.kinds[i], &d1.types, "2<:1")] {
            ctx.eval();
            let mut cache = HashSet::new();
            if let Err(e) = SubtypeChecker::new(&mut cache).is_subtype(x, xt, y, yt) {
                ctx.violation(case, &format!("C07:not-reflexive-across-decodes:{name}:{}", items[i].tag), format!("`{}` decoded twice is not a subtype of itself ({dir}): {e:#}", items[i].tag), json!({"a": items[i].wat}));
            }
        }
        ctx.count("reflexivity-checks");
    }
    // (3) transitivity of wac's own verdict matrix
    for a in 0..n {
        for b in 0..n {
            if !wac[a][b] {
                continue;
            }
            for c in 0..n {
                if wac[b][c] && !wac[a][c] {
                    ctx.violation(
                        case,
                        &format!("C07:not-transitive:{name}:{}:{}:{}", items[a].tag, items[b].tag, items[c].tag),
                        format!("`{}` <: `{}` and `{}` <: `{}` but not `{}` <: `{}`", items[a].tag, items[b].tag, items[b].tag, items[c].tag, items[a].tag, items[c].tag),
                        json!({"a": items[a].wat, "b": items[b].wat, "c": items[c].wat}),
                    );
                }
            }
        }
    }
    ctx.count("transitivity-matrices");
    // (4) memo independence: one shared memo, several random orders
    let mut pairs: Vec<(usize, usize)> = (0..n).flat_map(|i| (0..n).map(move |j| (i, j))).collect();
    for round in 0..3 {
        rng.shuffle(&mut pairs);
        let mut cache = HashSet::new();
        for (i, j) in &pairs {
            ctx.eval();
            let got = SubtypeChecker::new(&mut cache).is_subtype(d1.kinds[*i], &d1.types, d1.kinds[*j], &d1.types).is_ok();
            if got != wac[*i][*j] {
                ctx.violation(
                    case,
                    &format!("C07:memo-changes-verdict:{name}:{} <: {}", items[*i].tag, items[*j].tag),
                    format!("with a memo populated by earlier checks (round {round}) `{}` <: `{}` is {got}, with a fresh memo {}", items[*i].tag, items[*j].tag, wac[*i][*j]),
                    json!({"a": items[*i].wat, "b": items[*j].wat}),
                );
            }
        }
        ctx.count("memo-rounds");
    }
    // (5) set_instantiation_argument (persistent graph cache) gives the same verdicts
    let mut g = CompositionGraph::new();
    let upkg = match Package::from_bytes("test:universe", None, d1.bytes.clone(), g.types_mut()) {
        Ok(p) => p,
        Err(_) => return,
    };
    let uworld = g.types()[upkg.ty()].clone();
    let ukinds: Vec<ItemKind> = (0..n).map(|i| uworld.imports[&format!("a{i}")]).collect();
    let mut sources = Vec::new();
    for (i, k) in ukinds.iter().enumerate() {
        match g.import(format!("src{i}"), *k) {
            Ok(nid) => sources.push(Some(nid)),
            Err(_) => sources.push(None),
        }
    }
    let mut order: Vec<usize> = (0..n).collect();
    rng.shuffle(&mut order);
    for j in order {
        let consumer = format!("(component (import \"x\" {}))", items[j].wat);
        let Ok(cb) = wat::parse_str(&consumer) else { continue };
        let Ok(cp) = Package::from_bytes(&format!("test:consumer{j}"), None, cb, g.types_mut()) else { continue };
        let Ok(pid) = g.register_package(cp) else { continue };
        let inst = g.instantiate(pid);
        let mut is: Vec<usize> = (0..n).collect();
        rng.shuffle(&mut is);
        for i in is {
            let Some(src) = sources[i] else { continue };
            ctx.eval();
            let r = catch(|| g.set_instantiation_argument(inst, "x", src));
            let got = match r {
                Ok(Ok(())) => true,
                Ok(Err(InstantiationArgumentError::ArgumentTypeMismatch { .. })) => false,
                Ok(Err(e)) => {
                    ctx.violation(case, &format!("C07:set-argument-unexpected-error:{name}"), format!("{e}"), json!({"a": items[i].wat, "b": items[j].wat}));
                    continue;
                }
                Err(p) => {
                    ctx.violation(case, &format!("C07:set-argument-panic:{name}:{}", normalize_msg(&p.message)), p.to_string(), json!({"a": items[i].wat, "b": items[j].wat}));
                    continue;
                }
            };
            if got != wac[i][j] {
                ctx.violation(
                    case,
                    &format!("C07:set-argument-differs-from-checker:{name}:{} <: {}", items[i].tag, items[j].tag),
                    format!("set_instantiation_argument accepts={got} but a fresh SubtypeChecker says {} for `{}` <: `{}`", wac[i][j], items[i].tag, items[j].tag),
                    json!({"a": items[i].wat, "b": items[j].wat}),
                );
            }
            if got {
                let _ = g.unset_instantiation_argument(inst, "x", src);
            }
            ctx.count("set-argument-verdicts");
        }
    }
    if ctx.samples.len() < 4 {
        let acc: Vec<String> = (0..n).flat_map(|i| (0..n).filter(move |j| i != *j).map(move |j| (i, j))).filter(|(i, j)| wac[*i][*j]).take(4).map(|(i, j)| format!("{} <: {}", items[i].tag, items[j].tag)).collect();
        ctx.sample(json!({"category": name, "items": n, "some_accepted_pairs": acc}));
    }
}

/// With resources: wiring every matching export of ONE provider into a consumer must validate.
fn check_resource_wiring(ctx: &mut Ctx, case: u64, rng: &mut Rng) {
    let mut names = witgen::Names::new();
    let mut lo = LibOpts::default();
    lo.versions = false;
    lo.n_ifaces = rng.range(2, 4);
    lo.iface.resources = true;
    let pkgs = witgen::gen_pkgs(rng, &lo, &mut names);
    let texts: Vec<(String, String)> = pkgs.iter().enumerate().map(|(i, p)| (format!("lib{i}"), witgen::print_pkg(p))).collect();
    let ids: Vec<String> = pkgs[0].ifaces.iter().map(|i| pkgs[0].iface_id(&i.name)).collect();
    // the provider exports every interface of the package, the consumer imports a subset
    let provider = WorldModel { pkg: "test:provider".into(), world: "w".into(), imports: vec![], exports: ids.iter().map(|id| WorldItem::Iface { id: id.clone() }).collect() };
    let mut cons_ids = ids.clone();
    rng.shuffle(&mut cons_ids);
    cons_ids.truncate(rng.range(1, ids.len()));
    let consumer = WorldModel { pkg: "test:consumer".into(), world: "w".into(), imports: cons_ids.iter().map(|id| WorldItem::Iface { id: id.clone() }).collect(), exports: vec![] };
    let build = |w: &WorldModel| catch(|| witgen::build_component(&texts, &witgen::print_world_pkg(w), "w")).ok().and_then(|r| r.ok());
    let (Some(pb), Some(cb)) = (build(&provider), build(&consumer)) else {
        ctx.count("resource-wiring:gen-fail");
        return;
    };
    ctx.eval();
    let input = json!({"library": texts.iter().map(|t| t.1.clone()).collect::<Vec<_>>(), "provider": witgen::print_world_pkg(&provider), "consumer": witgen::print_world_pkg(&consumer)});
    let r = catch(|| {
        let mut g = CompositionGraph::new();
        let p = Package::from_bytes("test:provider", None, pb.clone(), g.types_mut()).map_err(|e| format!("{e:#}"))?;
        let c = Package::from_bytes("test:consumer", None, cb.clone(), g.types_mut()).map_err(|e| format!("{e:#}"))?;
        let pid = g.register_package(p).unwrap();
        let cid = g.register_package(c).unwrap();
        let pi = g.instantiate(pid);
        let ci = g.instantiate(cid);
        let args: Vec<String> = g.types()[g[cid].ty()].imports.keys().cloned().collect();
        let mut wired = 0;
        let mut rejected = Vec::new();
        for a in &args {
            if let Ok(alias) = g.alias_instance_export(pi, a) {
                match g.set_instantiation_argument(ci, a, alias) {
                    Ok(()) => wired += 1,
                    Err(e) => rejected.push(format!("{a}: {e}")),
                }
            }
        }
        let enc = g.encode(EncodeOptions { define_components: true, validate: false, processor: None }).map_err(|e| format!("encode: {e:#}"))?;
        Ok::<_, String>((wired, args.len(), rejected, validate(&enc)))
    });
    match r {
        Err(p) => ctx.violation(case, &format!("C07:resource-wiring-panic:{}", normalize_msg(&p.message)), p.to_string(), input),
        Ok(Err(e)) => {
            ctx.count("resource-wiring:setup-error");
            ctx.note("resource_wiring_last_error", json!(e));
        }
        Ok(Ok((wired, total, rejected, valid))) => {
            ctx.count("resource-wiring:compositions");
            ctx.add("resource-wiring:arguments-wired", wired as u64);
            if !rejected.is_empty() {
                // the provider exports exactly the interfaces the consumer imports (same WIT): every
                // export must be accepted
                ctx.violation(case, "C07:resource-wiring:identical-interface-rejected", format!("{rejected:?}"), input.clone());
            }
            if wired == total {
                if let Err(msg) = valid {
                    ctx.violation(case, &format!("C07:resource-wiring:accepted-but-invalid:{}", normalize_msg(&msg)), format!("all {wired} arguments were accepted from one provider but the instantiation does not validate: {msg}"), input);
                }
            }
        }
    }
}

pub fn run(ctx: &mut Ctx) {
    let cats: Vec<(&str, Vec<Item>)> = vec![
        ("func", func_items()),
        ("named-type", named_type_items()),
        ("instance", instance_items()),
        ("component", component_items()),
        ("module", module_items()),
        ("type-item", type_items()),
        ("mixed", {
            let mut v = Vec::new();
            v.extend(func_items().into_iter().take(3));
            v.extend(instance_items().into_iter().take(4));
            v.extend(component_items().into_iter().take(4));
            v.extend(module_items().into_iter().take(3));
            v
        }),
    ];
    for (i, (name, items)) in cats.iter().enumerate() {
        let case = i as u64;
        if !ctx.mine(case) {
            continue;
        }
        let mut rng = ctx.rng(case);
        check_category(ctx, case, name, items, &mut rng);
    }
    ctx.exhaustive = Some(true);
    let base = cats.len() as u64;
    // random deeper universes: random subsets re-ordered (exercises the memo under other histories)
    let total = ctx.n(200, 1_000_000);
    for case in ctx.cases(base + total) {
        if case < base {
            continue;
        }
        if ctx.out_of_budget() {
            ctx.count("budget-stop");
            break;
        }
        let mut rng = ctx.rng(case);
        if rng.chance(1, 2) {
            ctx.begin(case);
            check_resource_wiring(ctx, case, &mut rng);
        } else {
            let (name, items) = rng.pick(&cats).clone();
            let mut items = items;
            rng.shuffle(&mut items);
            items.truncate(rng.range(4, 14.min(items.len())));
            check_category(ctx, case, name, &items, &mut rng);
        }
    }
}
