//! C05 — WIT declarations in WAC mean what WIT means.
//!
//! Monitor: the same generated text is encoded by the reference WIT toolchain
//! (`wit_parser` + `wit_component::encode`) and by wac (`Document::parse(..).resolve(..).encode()`);
//! both binaries are nested in one reference validator and every interface / world type exported
//! by both is compared with the validator's own subtype relation, in both directions.

use crate::ctx::Ctx;
use crate::refval;
use crate::util::{catch, normalize_msg, Rng};
use crate::witgen::{self, gen_iface, print_iface_body, IfaceOpts, Names, Pkg};
use indexmap::IndexMap;
use serde_json::json;
use std::fmt::Write as _;
use wac_parser::Document;
use wac_types::BorrowedPackageKey;
use wasmparser::component_types::ComponentEntityType;

struct WorldInfo {
    name: String,
    /// explicit items: (is_import, extern name)
    items: Vec<(bool, String)>,
}

struct Generated {
    /// the text as WIT
    wit: String,
    /// the same text as WAC: identical except that WAC requires a `;` after an inline interface
    /// of a world item and after `include .. with { .. }`
    wac: String,
    interfaces: Vec<String>,
    worlds: Vec<WorldInfo>,
    features: Vec<&'static str>,
    has_resources: bool,
    /// worlds that export an interface together with one of that interface's dependencies
    /// (recorded finding: wac routes the dependency to an import, the reference to the export)
    exported_dep_worlds: Vec<String>,
}

fn gen_text(rng: &mut Rng, lib: &[Pkg], names: &mut Names) -> Generated {
    let mut wit = String::from("package test:pkg;\n");
    let mut features = Vec::new();
    let mut local = Pkg { ns: "test".into(), name: "pkg".into(), version: None, ifaces: vec![] };
    let reuse_names = rng.chance(1, 2);
    if reuse_names {
        features.push("same-type-names-in-several-interfaces");
    }
    let opts = IfaceOpts { max_types: rng.range(1, 4), max_funcs: 3, resources: rng.chance(2, 3), depth: rng.range(1, 2), avoid_alias_of_used: false, reuse_names };
    let n_if = rng.range(1, 4);
    let mut has_resources = lib.iter().any(|p| p.ifaces.iter().any(|i| i.types.iter().any(|(_, d)| matches!(d, witgen::TypeDef::Resource { .. }))));
    let mut foreign: Vec<(String, String, String, bool)> = Vec::new();
    for p in lib {
        for i in &p.ifaces {
            for (t, d) in &i.types {
                foreign.push((p.iface_id(&i.name), p.iface_id(&i.name), t.clone(), matches!(d, witgen::TypeDef::Resource { .. })));
            }
        }
    }
    for k in 0..n_if {
        let mut usable: Vec<(String, String, String, bool)> = Vec::new();
        for i in &local.ifaces {
            for (t, d) in &i.types {
                usable.push((i.name.clone(), local.iface_id(&i.name), t.clone(), matches!(d, witgen::TypeDef::Resource { .. })));
            }
        }
        if rng.chance(1, 2) {
            usable.extend(foreign.iter().cloned());
        }
        let iface = gen_iface(rng, format!("i{k}"), &usable, &opts, names);
        if !iface.uses.is_empty() {
            features.push("use");
            if iface.uses.iter().any(|u| u.as_name.is_some()) {
                features.push("use-rename");
            }
            if iface.uses.iter().any(|u| u.path.contains(':')) {
                features.push("use-foreign");
            }
        }
        if iface.types.iter().any(|(_, d)| matches!(d, witgen::TypeDef::Resource { .. })) {
            features.push("resource");
            has_resources = true;
        }
        writeln!(wit, "\ninterface {} {{", iface.name).unwrap();
        print_iface_body(&mut wit, &iface, "    ");
        writeln!(wit, "}}").unwrap();
        local.ifaces.push(iface);
    }
    let mut wac = wit.clone();
    let interfaces: Vec<String> = local.ifaces.iter().map(|i| i.name.clone()).collect();
    let mut worlds: Vec<WorldInfo> = Vec::new();
    for w in 0..rng.range(1, 3) {
        let wname = format!("w{w}");
        let both = |wit: &mut String, wac: &mut String, a: &str, b: &str| {
            wit.push_str(a);
            wac.push_str(b);
        };
        let head = format!("\nworld {wname} {{\n");
        both(&mut wit, &mut wac, &head, &head);
        let mut items: Vec<(bool, String)> = Vec::new();
        if w > 0 && rng.chance(1, 2) {
            let target = rng.below(w);
            // named (kebab) items of the included world may be renamed
            let named: Vec<String> = worlds[target].items.iter().map(|(_, n)| n.clone()).filter(|n| !n.contains(':')).collect();
            let mut named_unique = named.clone();
            named_unique.sort();
            named_unique.dedup();
            let with: Vec<String> = named_unique.iter().filter(|_| rng.chance(1, 2)).cloned().collect();
            if with.is_empty() {
                let l = format!("    include w{target};\n");
                both(&mut wit, &mut wac, &l, &l);
                items.extend(worlds[target].items.iter().cloned());
                features.push("include");
            } else {
                let renames: Vec<String> = with.iter().map(|n| format!("{n} as {n}-r{w}")).collect();
                let a = format!("    include w{target} with {{ {} }}\n", renames.join(", "));
                let b = format!("    include w{target} with {{ {} }};\n", renames.join(", "));
                both(&mut wit, &mut wac, &a, &b);
                for (imp, n) in &worlds[target].items {
                    items.push((*imp, if with.contains(n) { format!("{n}-r{w}") } else { n.clone() }));
                }
                features.push("include-with");
            }
        }
        for _ in 0..rng.range(1, 4) {
            let is_import = rng.chance(1, 2);
            let dir = if is_import { "import" } else { "export" };
            match rng.below(5) {
                0 | 1 => {
                    let i = rng.pick(&interfaces).clone();
                    let ext = format!("test:pkg/{i}");
                    if !items.contains(&(is_import, ext.clone())) {
                        let l = format!("    {dir} {i};\n");
                        both(&mut wit, &mut wac, &l, &l);
                        items.push((is_import, ext));
                        features.push("world-interface-by-name");
                    }
                }
                2 => {
                    if !lib.is_empty() {
                        let p = rng.pick(lib);
                        let id = p.iface_id(&rng.pick(&p.ifaces).name);
                        if !items.contains(&(is_import, id.clone())) {
                            let l = format!("    {dir} {id};\n");
                            both(&mut wit, &mut wac, &l, &l);
                            items.push((is_import, id));
                            features.push("world-interface-by-path");
                        }
                    }
                }
                3 => {
                    let n = names.fresh("wf");
                    let f = witgen::Func { name: n.clone(), params: vec![("a".into(), witgen::Ty::Prim("u8"))], result: Some(witgen::Ty::List(Box::new(witgen::Ty::Prim("string")))) };
                    let l = format!("    {dir} {n}: {};\n", witgen::func_sig(&f));
                    both(&mut wit, &mut wac, &l, &l);
                    items.push((is_import, n));
                    features.push("world-func");
                }
                _ => {
                    let n = names.fresh("wi");
                    let o = IfaceOpts { max_types: 2, max_funcs: 2, resources: rng.chance(1, 2), depth: 1, avoid_alias_of_used: false, reuse_names };
                    let iface = gen_iface(rng, n.clone(), &[], &o, names);
                    if iface.types.iter().any(|(_, d)| matches!(d, witgen::TypeDef::Resource { .. })) {
                        has_resources = true;
                    }
                    let mut body = format!("    {dir} {n}: interface {{\n");
                    print_iface_body(&mut body, &iface, "        ");
                    let a = format!("{body}    }}\n");
                    let b = format!("{body}    }};\n");
                    both(&mut wit, &mut wac, &a, &b);
                    items.push((is_import, n));
                    features.push("world-inline-interface");
                }
            }
        }
        both(&mut wit, &mut wac, "}\n", "}\n");
        worlds.push(WorldInfo { name: wname, items });
    }
    // use-closure of every interface id
    let mut uses_of: std::collections::HashMap<String, Vec<String>> = std::collections::HashMap::new();
    for p in lib.iter().chain(std::iter::once(&local)) {
        for i in &p.ifaces {
            let deps = i.uses.iter().map(|u| if u.path.contains(':') { u.path.clone() } else { p.iface_id(&u.path) }).collect();
            uses_of.insert(p.iface_id(&i.name), deps);
        }
    }
    let closure = |start: &str| -> Vec<String> {
        let mut seen: Vec<String> = Vec::new();
        let mut todo: Vec<String> = uses_of.get(start).cloned().unwrap_or_default();
        while let Some(n) = todo.pop() {
            if !seen.contains(&n) {
                todo.extend(uses_of.get(&n).cloned().unwrap_or_default());
                seen.push(n);
            }
        }
        seen
    };
    let exported_dep_worlds = worlds
        .iter()
        .filter(|w| {
            let exported: Vec<&String> = w.items.iter().filter(|(imp, _)| !*imp).map(|(_, n)| n).collect();
            // (foreign or the document's own interfaces: with `export i0; export i1; import i2;`, i1 using
            // i0 and i2 using i1, the dependency is imported implicitly as well and the two toolchains
            // route i1's `use` differently; the directed family below pins the explicit orders that agree)
            exported.iter().any(|x| closure(x).iter().any(|d| exported.contains(&d)))
        })
        .map(|w| w.name.clone())
        .collect();
    Generated { wit, wac, interfaces, worlds, features, has_resources, exported_dep_worlds }
}

fn compare(ctx: &mut Ctx, case: u64, g: &Generated, reference: &[u8], wac: &[u8], input: &serde_json::Value) {
    let n = match refval::nest(&[reference, wac]) {
        Ok(n) => n,
        Err(e) => {
            let r_ok = crate::decode::validate(reference).is_ok();
            let w = crate::decode::validate(wac);
            if r_ok && w.is_err() {
                ctx.violation(case, &format!("C05:wac-encoding-invalid:{}", normalize_msg(&w.unwrap_err())), format!("wac's encoding of the declarations does not validate: {e}"), input.clone());
            } else {
                ctx.count("harness:wrapper-invalid");
                ctx.note("last_wrapper_error", json!(e));
            }
            return;
        }
    };
    let world_names: Vec<&String> = g.worlds.iter().map(|w| &w.name).collect();
    for name in g.interfaces.iter().chain(world_names.into_iter()) {
        ctx.eval();
        let (Some(er), Some(ew)) = (n.export_of(0, name), n.export_of(1, name)) else {
            let which = if n.export_of(0, name).is_none() { "reference" } else { "wac" };
            ctx.violation(case, &format!("C05:type-export-missing:{which}"), format!("`{name}` is not exported by the {which} encoding (reference exports {:?}, wac exports {:?})", n.export_names(0), n.export_names(1)), input.clone());
            continue;
        };
        let (Some(cr), Some(cw)) = (n.component_type_of(&er), n.component_type_of(&ew)) else {
            ctx.violation(case, "C05:type-export-is-not-a-component-type", format!("`{name}`"), input.clone());
            continue;
        };
        let full = format!("test:pkg/{name}");
        if !cr.exports.contains_key(&full) || !cw.exports.contains_key(&full) {
            ctx.violation(case, "C05:inner-export-missing", format!("`{full}`: reference has {:?}, wac has {:?}", cr.exports.keys().collect::<Vec<_>>(), cw.exports.keys().collect::<Vec<_>>()), input.clone());
            continue;
        }
        // The comparison is made on the enclosing component types, so that the validator maps the
        // abstract resources of the two encodings onto each other.
        let ab = n.is_subtype(&er, &ew);
        let ba = n.is_subtype(&ew, &er);
        let world = g.worlds.iter().find(|w| &w.name == name);
        match world {
            None => {
                if ab && ba {
                    ctx.count("interfaces-compared");
                } else {
                    ctx.violation(case, &format!("C05:interface-not-mutual-subtype:ref<:wac={ab}:wac<:ref={ba}"), format!("interface `{name}`: reference <: wac = {ab}, wac <: reference = {ba}"), input.clone());
                }
            }
            Some(w) => {
                let (ComponentEntityType::Component(a), ComponentEntityType::Component(b)) = (cr.exports[&full], cw.exports[&full]) else {
                    ctx.violation(case, "C05:world-is-not-a-component", format!("`{full}`"), input.clone());
                    continue;
                };
                let tr = n.types.as_ref();
                let (Some(ta), Some(tb)) = (tr.get(a), tr.get(b)) else { continue };
                // explicit items must be present on both sides
                for (is_import, ext) in &w.items {
                    let (ma, mb) = if *is_import { (&ta.imports, &tb.imports) } else { (&ta.exports, &tb.exports) };
                    let dir = if *is_import { "import" } else { "export" };
                    match (ma.get(ext), mb.get(ext)) {
                        (Some(_), None) => ctx.violation(case, &format!("C05:world-{dir}-missing-in-wac"), format!("world `{name}`: explicit {dir} `{ext}` is missing from wac's encoding ({:?})", mb.keys().collect::<Vec<_>>()), input.clone()),
                        (None, Some(_)) | (None, None) => ctx.count("harness:explicit-item-not-in-reference"),
                        (Some(va), Some(vb)) => {
                            // pairwise comparison is only meaningful without abstract resources
                            if !g.has_resources {
                                if !(n.is_subtype(va, vb) && n.is_subtype(vb, va)) {
                                    ctx.violation(case, &format!("C05:world-{dir}-type-differs"), format!("world `{name}` {dir} `{ext}` is not mutually subtype"), input.clone());
                                } else {
                                    ctx.count("world-items-compared");
                                }
                            }
                        }
                    }
                }
                // wac must not invent explicit-looking items (kebab names) the reference lacks
                for k in tb.imports.keys().chain(tb.exports.keys()) {
                    if !k.contains(':') && !ta.imports.contains_key(k) && !ta.exports.contains_key(k) {
                        ctx.violation(case, "C05:world-item-only-in-wac", format!("world `{name}`: `{k}` exists only in wac's encoding"), input.clone());
                    }
                }
                // an interface the world exports is not also imported behind the author's back
                for k in tb.imports.keys() {
                    if k.contains(':') && tb.exports.contains_key(k) && !ta.imports.contains_key(k) {
                        ctx.violation(case, "C05:world-imports-an-exported-dependency:reference-routes-the-use-to-the-export", format!("world `{name}` exports `{k}` and an interface using it; the reference resolves that `use` to the export, wac adds an import of `{k}` and resolves the `use` to it"), input.clone());
                    }
                }
                let mut ea: Vec<&String> = ta.exports.keys().collect();
                let mut eb: Vec<&String> = tb.exports.keys().collect();
                ea.sort();
                eb.sort();
                if ea != eb {
                    ctx.violation(case, "C05:world-exports-differ", format!("world `{name}`: reference exports {ea:?}, wac exports {eb:?}"), input.clone());
                }
                if ab && ba {
                    ctx.count("worlds-mutual-subtype");
                } else {
                    // dependency imports may be pruned differently; that alone is not a difference of
                    // the explicit interface
                    ctx.count("worlds-differ-only-in-dependency-imports-or-resources");
                    // With the same import names on both sides the only tolerated difference is that
                    // wac's implicit dependency imports carry types only, where the reference carries
                    // the whole interface: wac's world must then still be a subtype of the reference.
                    let mut ia: Vec<&String> = ta.imports.keys().collect();
                    let mut ib: Vec<&String> = tb.imports.keys().collect();
                    ia.sort();
                    ib.sort();
                    if g.exported_dep_worlds.contains(name) {
                        ctx.count("zone:world-exports-an-interface-and-its-dependency");
                    } else if ia == ib {
                        ctx.count("worlds-one-way-checked");
                        if !ba {
                            ctx.violation(case, "C05:world-not-subtype-of-reference", format!("world `{name}`: same import names {ia:?} but wac's world type is not a subtype of the reference's"), input.clone());
                        }
                    } else {
                        ctx.count("worlds-with-different-dependency-imports");
                    }
                    ctx.count(&format!("worlds-differ:ref<:wac={ab}:wac<:ref={ba}"));
                    if std::env::var("C05_DUMP").is_ok() {
                        std::fs::write(format!("/tmp/c05_case{case}.json"), serde_json::to_string(input).unwrap()).ok();
                        eprintln!("CASE {case} world {name} ab={ab} ba={ba} ref imports {:?} wac imports {:?}", ta.imports.keys().collect::<Vec<_>>(), tb.imports.keys().collect::<Vec<_>>());
                    }
                }
                ctx.count("worlds-compared");
            }
        }
    }
}

pub fn run(ctx: &mut Ctx) {
    run_witness(ctx);
    run_import_and_export_orders(ctx);
    let total = ctx.n(40_000, 12_000_000);
    for case in ctx.cases(total) {
        if ctx.out_of_budget() {
            ctx.count("budget-stop");
            break;
        }
        ctx.begin(case);
        let mut rng = ctx.rng(case);
        let mut names = Names::new();
        let mut lo = witgen::LibOpts::default();
        lo.n_ifaces = rng.range(1, 2);
        lo.versions = rng.chance(1, 2);
        lo.iface.max_types = 2;
        lo.iface.reuse_names = rng.chance(1, 2);
        lo.iface.avoid_alias_of_used = false;
        let lib: Vec<Pkg> = if rng.chance(2, 3) { witgen::gen_pkgs(&mut rng, &lo, &mut names).into_iter().filter(|p| p.name == "lib").take(1).collect() } else { vec![] };
        let lib_texts: Vec<(String, String)> = lib.iter().enumerate().map(|(i, p)| (format!("lib{i}"), witgen::print_pkg(p))).collect();
        let g = gen_text(&mut rng, &lib, &mut names);
        check_text(ctx, case, &lib, &lib_texts, &g);
    }
}

/// Directed witness of the recorded finding: a world exports two interfaces of a foreign package,
/// one of which uses the other.
/// Directed family: the document's own interfaces `a` (a resource) and `b` (uses it), and every
/// ordered selection of {import a, export a, import b, export b} as the items of one world: which
/// `a` the `use` of an exported / imported `b` denotes depends on what came before it.
fn run_import_and_export_orders(ctx: &mut Ctx) {
    let case = crate::witness::WITNESS_BASE + 1;
    if !ctx.mine(case) {
        return;
    }
    ctx.begin(case);
    let mut text = String::from("package test:pkg;\n\ninterface a {\n    resource r;\n    make: func() -> r;\n}\n\ninterface b {\n    use a.{r};\n    take: func(x: borrow<r>);\n    give: func() -> r;\n}\n\n");
    let all = [(true, "a"), (false, "a"), (true, "b"), (false, "b")];
    let mut worlds = Vec::new();
    fn rec(all: &[(bool, &str); 4], cur: &mut Vec<usize>, out: &mut Vec<Vec<usize>>) {
        if !cur.is_empty() {
            out.push(cur.clone());
        }
        for i in 0..4 {
            if !cur.contains(&i) {
                cur.push(i);
                rec(all, cur, out);
                cur.pop();
            }
        }
    }
    let mut sels = Vec::new();
    rec(&all, &mut Vec::new(), &mut sels);
    for (k, sel) in sels.iter().enumerate() {
        let name = format!("o{k}");
        let _ = writeln!(text, "world {name} {{");
        let mut items = Vec::new();
        for i in sel {
            let (imp, n) = all[*i];
            let _ = writeln!(text, "    {} {n};", if imp { "import" } else { "export" });
            items.push((imp, format!("test:pkg/{n}")));
        }
        let _ = writeln!(text, "}}\n");
        worlds.push(WorldInfo { name, items });
    }
    ctx.add("directed:import-and-export-orders", worlds.len() as u64);
    let g = Generated { wit: text.clone(), wac: text, interfaces: vec!["a".into(), "b".into()], worlds, features: vec![], has_resources: true, exported_dep_worlds: vec![] };
    check_text(ctx, case, &[], &[], &g);
}

fn run_witness(ctx: &mut Ctx) {
    let case = crate::witness::WITNESS_BASE;
    if !ctx.mine(case) {
        return;
    }
    ctx.begin(case);
    let lib_text = "package ns:lib;\n\ninterface i0 {\n    resource r;\n}\n\ninterface i1 {\n    use i0.{r};\n    f: func() -> r;\n}\n";
    let lib = vec![crate::witness::model_of_pub(lib_text)];
    let lib_texts = vec![("lib0".to_string(), lib_text.to_string())];
    let text = "package test:pkg;\n\nworld w0 {\n    export ns:lib/i0;\n    export ns:lib/i1;\n}\n".to_string();
    let g = Generated {
        wit: text.clone(),
        wac: text,
        interfaces: vec![],
        worlds: vec![WorldInfo { name: "w0".into(), items: vec![(false, "ns:lib/i0".into()), (false, "ns:lib/i1".into())] }],
        features: vec![],
        has_resources: true,
        exported_dep_worlds: vec![],
    };
    ctx.count("witness-run");
    check_text(ctx, case, &lib, &lib_texts, &g);
}

fn check_text(ctx: &mut Ctx, case: u64, lib: &[Pkg], lib_texts: &[(String, String)], g: &Generated) {
    {
        let input = json!({"text": g.wac, "wit": g.wit, "deps": lib_texts.iter().map(|t| t.1.clone()).collect::<Vec<_>>()});
        // reference toolchain
        let reference = match catch(|| witgen::encode_wit_package(lib_texts, &g.wit)) {
            Ok(Ok(b)) => b,
            Ok(Err(e)) => {
                ctx.count("generated-text-rejected-by-wit-parser");
                ctx.note("last_wit_rejection", json!(format!("{e:#}").chars().take(400).collect::<String>()));
                return;
            }
            Err(_) => {
                ctx.count("wit-component-panic");
                return;
            }
        };
        // wac
        let deps: Vec<(String, Option<semver::Version>, Vec<u8>)> = lib
            .iter()
            .zip(lib_texts.iter())
            .filter_map(|(p, t)| {
                let bytes = witgen::encode_wit_package(&[], &t.1).ok()?;
                Some((format!("{}:{}", p.ns, p.name), p.version.as_ref().map(|v| semver::Version::parse(v).unwrap()), bytes))
            })
            .collect();
        ctx.eval();
        let r = catch(|| {
            let doc = Document::parse(&g.wac).map_err(|e| format!("parse: {e}"))?;
            let mut map: IndexMap<BorrowedPackageKey, Vec<u8>> = IndexMap::new();
            for (n, v, b) in &deps {
                map.insert(BorrowedPackageKey::from_name_and_version(n, v.as_ref()), b.clone());
            }
            let res = doc.resolve(map).map_err(|e| format!("resolve: {e:?}"))?;
            res.encode(wac_graph::EncodeOptions { define_components: true, validate: false, processor: None }).map_err(|e| format!("encode: {e:?}"))
        });
        let wac = match r {
            Ok(Ok(b)) => b,
            Ok(Err(e)) => {
                ctx.violation(case, &format!("C05:valid-wit-rejected-by-wac:{}", normalize_msg(&e.chars().take(120).collect::<String>())), format!("wit-parser accepts the text, wac does not: {e}"), input);
                return;
            }
            Err(p) => {
                ctx.violation(case, &format!("C05:wac-panic:{}", normalize_msg(&p.message)), p.to_string(), input);
                return;
            }
        };
        ctx.count("packages-encoded-by-both");
        for f in &g.features {
            ctx.count(&format!("feature:{f}"));
        }
        compare(ctx, case, g, &reference, &wac, &input);
        if (g.interfaces.len() >= 2 && g.features.contains(&"use")) || g.features.contains(&"include") || g.features.contains(&"include-with") {
            ctx.shape_str(&g.wac.chars().filter(|c| !c.is_ascii_digit()).collect::<String>());
            if ctx.samples.len() < 2 {
                ctx.sample(json!({"case": case, "text": g.wac}));
            }
        }
    }
}
