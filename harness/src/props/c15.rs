//! C15 — semver-compatible name matching is the semver track relation; highest wins.
//!
//! Monitor: reference model M2 written on `semver::Version::parse` only, compared with
//! `are_semver_compatible` on every ordered pair and with `NameMap::{insert,get}` on every
//! insertion order of every small subset; plus random larger cases.

use crate::ctx::Ctx;
use crate::util::{catch, Rng};
use semver::Version;
use serde_json::json;
use wac_types::{are_semver_compatible, NameMap, NameMapNoIntern};

#[derive(Debug, Clone, PartialEq, Eq)]
pub enum Track {
    Major(u64),
    Minor(u64),
}

/// M2: the track of a name, if it has one.
pub fn model_track(name: &str) -> Option<(&str, Track, Version)> {
    let at = name.find('@')?;
    let base = &name[..at];
    let v = Version::parse(&name[at + 1..]).ok()?;
    if !v.pre.is_empty() {
        return None;
    }
    if v.major > 0 {
        Some((base, Track::Major(v.major), v))
    } else if v.minor > 0 {
        Some((base, Track::Minor(v.minor), v))
    } else {
        None
    }
}

pub fn model_compatible(a: &str, b: &str) -> bool {
    if a == b {
        return true;
    }
    match (model_track(a), model_track(b)) {
        (Some((ba, ta, _)), Some((bb, tb, _))) => ba == bb && ta == tb,
        _ => false,
    }
}

/// Model of `NameMap::get`: the set of acceptable answers (indices into `entries`).
/// `None` means "must return nothing".
pub fn model_get(entries: &[String], q: &str) -> Option<Vec<usize>> {
    if let Some(i) = entries.iter().position(|e| e == q) {
        return Some(vec![i]);
    }
    let (qb, qt, _) = model_track(q)?;
    let mut best: Option<Version> = None;
    for e in entries {
        if let Some((b, t, v)) = model_track(e) {
            if b == qb && t == qt {
                let core = Version::new(v.major, v.minor, v.patch);
                if best.as_ref().map(|x| core > *x).unwrap_or(true) {
                    best = Some(core);
                }
            }
        }
    }
    let best = best?;
    let acc: Vec<usize> = entries
        .iter()
        .enumerate()
        .filter(|(_, e)| {
            model_track(e)
                .map(|(b, t, v)| {
                    b == qb && t == qt && Version::new(v.major, v.minor, v.patch) == best
                })
                .unwrap_or(false)
        })
        .map(|(i, _)| i)
        .collect();
    Some(acc)
}

fn universe() -> Vec<String> {
    let mut u = Vec::new();
    for base in ["a:b/c", "a:b/cd"] {
        u.push(base.to_string());
        for ma in 0..3 {
            for mi in 0..3 {
                for pa in 0..3 {
                    for pre in ["", "-rc"] {
                        for build in ["", "+meta"] {
                            u.push(format!("{base}@{ma}.{mi}.{pa}{pre}{build}"));
                        }
                    }
                }
            }
        }
    }
    for m in [
        "a:b/c@", "a:b/c@1", "a:b/c@1.0", "a:b/c@1.0.0.0", "a:b/c@x.y.z", "a:b/c@01.0.0",
        "a:b/c@1.0.0@1.0.0", "@1.0.0", "a:b/c@1.0.0-", "a:b/c@1.0.0+", "a:b/c@ 1.0.0",
        "a:b/c@1.0.0 ", "a:b/c@v1.0.0", "a:b/c@10.0.0", "a:b/c@0.10.0", "a:b/c@1.10.0",
        "a:b/c@1.0.0+a.b.c", "a:b/c@1.0.0-rc.1+a.b", "a:b/c@0.1.0+1.2", "a:b/c@0.1.0+0.2",
        "a.b@1.2.3", "a.b@0.1.2", "a.b.c@0.1.2", "a.b@0.0.1",
    ] {
        u.push(m.to_string());
    }
    u
}

fn sub_universe() -> Vec<String> {
    [
        "a:b/c", "a:b/c@1.0.0", "a:b/c@1.0.1", "a:b/c@1.2.0", "a:b/c@1.2.0+meta", "a:b/c@2.0.0",
        "a:b/c@2.1.0-rc", "a:b/c@0.1.0", "a:b/c@0.1.2", "a:b/c@0.2.0", "a:b/c@0.0.1",
        "a:b/c@0.0.2", "a:b/c@1.0.0-rc", "a:b/c@10.0.0", "a:b/cd@1.0.0", "a:b/cd@1.3.0",
        "a:b/cd@0.1.0", "a:b/cd", "a:b/c@1.10.0", "a:b/c@0.10.0", "a:b/c@bad", "a:b/c@0.1.5+m.1",
    ]
    .iter()
    .map(|s| s.to_string())
    .collect()
}

fn check_pair(ctx: &mut Ctx, case: u64, a: &str, b: &str) {
    ctx.eval();
    let got = are_semver_compatible(a, b);
    let want = model_compatible(a, b);
    ctx.count(if got { "pair:compatible" } else { "pair:incompatible" });
    if a != b {
        ctx.shape(crate::util::hash_str(&format!("P|{a}|{b}")));
    }
    if got != want {
        ctx.violation(
            case,
            &format!("C15:compat-differs:impl={got}:model={want}"),
            format!("are_semver_compatible({a:?},{b:?}) = {got}, semver-track model says {want}"),
            json!({"kind":"pair","a":a,"b":b}),
        );
    }
}

fn check_map(ctx: &mut Ctx, case: u64, order: &[String], queries: &[String]) {
    let mut map: NameMap<String, usize> = NameMap::default();
    let mut intern = NameMapNoIntern;
    let mut entries: Vec<String> = Vec::new();
    for (i, name) in order.iter().enumerate() {
        let r = map.insert(name, &mut intern, false, i);
        let dup = entries.contains(name);
        if r.is_err() != dup {
            ctx.violation(
                case,
                "C15:insert-result",
                format!("insert({name:?}) -> {:?} but duplicate={dup}", r.is_ok()),
                json!({"kind":"map","order":order,"query":name}),
            );
        }
        if !dup {
            entries.push(name.clone());
        }
    }
    ctx.shape(crate::util::hash_str(&format!("M|{}", order.join("|"))));
    for q in queries {
        ctx.eval();
        let got = map.get(q, &intern).copied();
        let want = model_get(&entries, q);
        let ok = match (&got, &want) {
            (None, None) => true,
            (Some(i), Some(acc)) => {
                // the impl stores the insertion index of the *order*; entries has same order
                // for non-duplicates, so map index -> entry name
                let name = &order[*i];
                acc.iter().any(|j| &entries[*j] == name)
            }
            _ => false,
        };
        ctx.count(match (&got, entries.iter().any(|e| e == q)) {
            (None, _) => "get:none",
            (Some(_), true) => "get:exact",
            (Some(_), false) => "get:alternate",
        });
        if !ok {
            let kind = match (&got, &want) {
                (None, Some(_)) => "missing",
                (Some(_), None) => "spurious",
                _ => "wrong-entry",
            };
            ctx.violation(
                case,
                &format!("C15:get-{kind}"),
                format!(
                    "NameMap after inserting {order:?}: get({q:?}) = {:?}, model accepts {:?}",
                    got.map(|i| order[i].clone()),
                    want.map(|a| a.iter().map(|j| entries[*j].clone()).collect::<Vec<_>>())
                ),
                json!({"kind":"map","order":order,"query":q}),
            );
        }
    }
}

fn random_name(rng: &mut Rng) -> String {
    let bases = ["ns:pkg/iface", "ns:pkg/iface-two", "x:y/z", "wasi:http/types", "a", "ns:p.q/r"];
    let base = rng.pick(&bases).to_string();
    if rng.chance(1, 10) {
        return base;
    }
    let num = |rng: &mut Rng| -> u64 {
        match rng.below(6) {
            0 => 0,
            1 => 1,
            2 => rng.below(4) as u64,
            3 => 10 + rng.below(3) as u64,
            4 => rng.below(1000) as u64,
            _ => 2,
        }
    };
    let mut v = format!("{}.{}.{}", num(rng), num(rng), num(rng));
    if rng.chance(1, 6) {
        v.push_str(*rng.pick(&["-rc", "-rc.1", "-alpha.2", "-0", "-1.2.3"]));
    }
    if rng.chance(1, 4) {
        v.push_str(*rng.pick(&["+meta", "+1.2.3", "+a.b", "+0.1", "+build-5"]));
    }
    if rng.chance(1, 25) {
        // malformed
        v = rng
            .pick(&["1", "1.2", "1.2.3.4", "a.b.c", "01.2.3", "1.2.3-", "", "1.02.3", "1..3"])
            .to_string();
    }
    format!("{base}@{v}")
}

pub fn run(ctx: &mut Ctx) {
    if let Some(input) = ctx.replay_input.clone() {
        replay(ctx, &input);
        return;
    }
    let u = universe();
    let n = u.len() as u64;
    // Part A: exhaustive ordered pairs; case index = index of `a`.
    for case in ctx.cases(n) {
        ctx.begin(case);
        let a = &u[case as usize];
        for b in &u {
            check_pair(ctx, case, a, b);
            // symmetry
            if are_semver_compatible(a, b) != are_semver_compatible(b, a) {
                ctx.violation(
                    case,
                    "C15:not-symmetric",
                    format!("compat({a:?},{b:?}) != compat({b:?},{a:?})"),
                    json!({"kind":"pair","a":a,"b":b}),
                );
            }
        }
        // equivalence: every member of a's class has the same class
        let class_a: Vec<bool> = u.iter().map(|b| are_semver_compatible(a, b)).collect();
        for (j, b) in u.iter().enumerate() {
            if class_a[j] {
                let class_b: Vec<bool> = u.iter().map(|c| are_semver_compatible(b, c)).collect();
                if class_a != class_b {
                    ctx.violation(
                        case,
                        "C15:not-transitive",
                        format!("classes of {a:?} and {b:?} differ although they are compatible"),
                        json!({"kind":"pair","a":a,"b":b}),
                    );
                }
            }
        }
    }
    ctx.note("pair_universe", json!(n));

    // Part B: all ordered selections of <=4 names from the sub-universe; case = n + first index.
    let s = sub_universe();
    let sn = s.len();
    let max_k = 4;
    for first in 0..sn {
        let case = n + first as u64;
        if !ctx.mine(case) {
            continue;
        }
        ctx.begin(case);
        let mut stack: Vec<usize> = vec![first];
        // iterative DFS over ordered selections starting with `first`
        fn rec(ctx: &mut Ctx, case: u64, s: &[String], sel: &mut Vec<usize>, max_k: usize) {
            let order: Vec<String> = sel.iter().map(|i| s[*i].clone()).collect();
            check_map(ctx, case, &order, s);
            ctx.count("maps");
            if sel.len() == max_k {
                return;
            }
            for i in 0..s.len() {
                if !sel.contains(&i) {
                    sel.push(i);
                    rec(ctx, case, s, sel, max_k);
                    sel.pop();
                }
            }
        }
        rec(ctx, case, &s, &mut stack, max_k);
    }
    ctx.note("map_universe", json!(sn));
    ctx.exhaustive = Some(true);

    // Part B2: the import aggregator decides "same track" with its own comparison of track keys
    // (aggregator.rs find_semver_compatible_import): every ordered pair of the map universe is
    // aggregated as two empty instance imports; they must merge (one import, named for the higher
    // version) exactly when the model says the names are compatible.
    {
        let s = sub_universe();
        let bcase = crate::witness::WITNESS_BASE + 7;
        if ctx.mine(bcase) {
            ctx.begin(bcase);
            for a in &s {
                for b in &s {
                    let Some(r) = catch(|| crate::props::c09::aggregate_pair(a, b)).ok().flatten() else {
                        ctx.count("aggregator-pair:name-not-importable");
                        continue;
                    };
                    ctx.eval();
                    let want = if a == b || model_compatible(a, b) { 1 } else { 2 };
                    match r {
                        Ok(names) => {
                            ctx.count(if names.len() == 1 { "aggregator-pair:merged" } else { "aggregator-pair:separate" });
                            if names.len() != want {
                                ctx.violation(bcase, &format!("C15:aggregator-merges-across-tracks-or-splits-a-track:{}", if names.len() < want { "merged" } else { "split" }), format!("aggregating `{a}` then `{b}` leaves imports {names:?}; the track relation says {want} import(s)"), json!({"first": a, "second": b}));
                            } else if want == 1 && a != b {
                                let core = |n: &str| model_track(n).map(|(_, _, v)| Version::new(v.major, v.minor, v.patch));
                                let hi = if core(a) > core(b) { a } else { b };
                                // equal core versions (build metadata only): either name may stay
                                if core(a) != core(b) && names[0] != *hi {
                                    ctx.violation(bcase, "C15:aggregator-keeps-the-lower-version-name", format!("aggregating `{a}` then `{b}` keeps `{}`, the higher version is `{hi}`", names[0]), json!({"first": a, "second": b}));
                                }
                            }
                        }
                        Err(e) => ctx.violation(bcase, "C15:aggregator-pair-conflict", format!("aggregating two empty instances `{a}`, `{b}` fails: {e}"), json!({"first": a, "second": b})),
                    }
                }
            }
        }
    }

    // Part C: random larger names and maps.
    let base = n + sn as u64;
    let total = ctx.n(20_000, 2_000_000);
    let mut sampled = 0;
    for case in ctx.cases(base + total) {
        if case < base {
            continue;
        }
        if ctx.out_of_budget() {
            ctx.count("budget-stop");
            break;
        }
        ctx.begin(case);
        let mut rng = ctx.rng(case);
        let k = rng.range(2, 6);
        let mut names: Vec<String> = (0..k).map(|_| random_name(&mut rng)).collect();
        if rng.chance(1, 5) {
            let d = names[0].clone();
            names.push(d); // duplicate insert
        }
        for a in &names {
            for b in &names {
                check_pair(ctx, case, a, b);
            }
        }
        let mut queries = names.clone();
        for _ in 0..4 {
            queries.push(random_name(&mut rng));
        }
        check_map(ctx, case, &names, &queries);
        ctx.count("random-cases");
        if sampled < 2 {
            ctx.sample(json!({"kind":"map","order":names,"queries":queries}));
            sampled += 1;
        }
    }
    ctx.sample(json!({"kind":"pair","a":u[5],"b":u[9],"model":model_compatible(&u[5],&u[9])}));
}

fn replay(ctx: &mut Ctx, input: &serde_json::Value) {
    let case = ctx.only_case.unwrap_or(0);
    match input["kind"].as_str() {
        Some("pair") => {
            let a = input["a"].as_str().unwrap();
            let b = input["b"].as_str().unwrap();
            check_pair(ctx, case, a, b);
        }
        Some("map") => {
            let order: Vec<String> = input["order"]
                .as_array()
                .unwrap()
                .iter()
                .map(|v| v.as_str().unwrap().to_string())
                .collect();
            let q = vec![input["query"].as_str().unwrap().to_string()];
            check_map(ctx, case, &order, &q);
        }
        _ => eprintln!("unknown replay input"),
    }
}
