//! C17 — package discovery finds every package resolution will ask for.
//!
//! Monitor: documents are generated from fragments that each know which package keys they mention
//! (in textual order).  `wac_resolver::packages` must report exactly that set minus the document's
//! own package; resolving with exactly the discovered packages, with the whole library and with a
//! random superset must give the same outcome (same bytes, or the same rendered error); a document
//! that instantiates its own package must be rejected by discovery.

use crate::ctx::Ctx;
use crate::util::{catch, normalize_msg, sha256_hex, Rng};
use crate::witgen;
use indexmap::IndexMap;
use semver::Version;
use serde_json::json;
use wac_parser::Document;
use wac_types::BorrowedPackageKey;

type Key = (String, Option<String>);

fn wit_text(name: &str, version: Option<&str>) -> String {
    let v = version.map(|v| format!("@{v}")).unwrap_or_default();
    format!(
        "package {name}{v};\n\ninterface i0 {{\n    record t {{ x: u8 }}\n    f: func() -> t;\n}}\n\ninterface i1 {{\n    use i0.{{t}};\n    g: func(a: t);\n}}\n\nworld w0 {{\n    import i0;\n    export i1;\n}}\n\nworld w1 {{\n    import i0;\n}}\n"
    )
}

const WIT_PKGS: &[(&str, Option<&str>)] = &[("ns:lib", None), ("ns:lib", Some("1.0.0")), ("ns:lib", Some("2.1.0")), ("ns:other", None), ("ns:other", Some("0.3.0"))];
/// (name, version, imports i0, exports (i0|i1))
const COMPS: &[(&str, Option<&str>, bool, &str)] = &[
    ("test:b", None, false, "i0"),
    ("test:e", Some("0.1.0"), false, "i0"),
    ("test:e", Some("0.2.0"), false, "i0"),
    ("test:c", None, true, "i0"),
    ("test:d", Some("1.2.3"), true, "i0"),
    ("test:a", None, true, "i1"),
    // providers of a second interface and pass-through components with TWO imports, so that a
    // `new` has two named arguments, each of which can hold a nested `new`
    ("test:ob", None, false, "o0"),
    ("test:ob", Some("0.9.0"), false, "o0"),
    ("test:w", None, true, "w"),
    ("test:w", Some("2.0.0"), true, "w"),
    ("unrelated:x", None, false, "i0"),
    ("unrelated:y", Some("3.0.0"), true, "i0"),
];

pub struct Lib {
    pub all: Vec<(Key, Vec<u8>)>,
}

pub fn build_lib() -> Result<Lib, String> {
    let mut all = Vec::new();
    for (n, v) in WIT_PKGS {
        let b = witgen::encode_wit_package(&[], &wit_text(n, *v)).map_err(|e| format!("{e:#}"))?;
        all.push(((n.to_string(), v.map(str::to_string)), b));
    }
    let libt = vec![("lib".to_string(), wit_text("ns:lib", None)), ("other".to_string(), wit_text("ns:other", None))];
    for (n, v, imp, exp) in COMPS {
        let export = match *exp {
            "o0" => "ns:other/i0".to_string(),
            "w" => "ns:lib/i0".to_string(),
            e => format!("ns:lib/{e}"),
        };
        let mut imports = String::new();
        if *imp {
            imports.push_str("    import ns:lib/i0;\n");
        }
        if *exp == "w" {
            imports.push_str("    import ns:other/i0;\n");
        }
        let world = format!("package {n};\n\nworld w {{\n{imports}    export {export};\n}}\n");
        let b = witgen::build_component(&libt, &world, "w").map_err(|e| format!("{e:#}"))?;
        all.push(((n.to_string(), v.map(str::to_string)), b));
    }
    Ok(Lib { all })
}

struct DocGen<'r> {
    rng: &'r mut Rng,
    keys: Vec<Key>,
    positions: Vec<&'static str>,
    k: usize,
    lets: Vec<String>,
    /// where to put the self instantiation (index of the `new` to replace), if any
    self_at: Option<usize>,
    news: usize,
    missing: bool,
}

impl DocGen<'_> {
    fn wit_ref(&mut self, pos: &'static str) -> (String, String) {
        // (package prefix, version suffix)
        let (n, v): (&str, Option<&str>) = if self.missing && self.rng.chance(1, 4) {
            *self.rng.pick(&[("ns:missing", None), ("ns:lib", Some("9.9.9")), ("ns:other", Some("0.3.1"))])
        } else {
            *self.rng.pick(WIT_PKGS)
        };
        self.keys.push((n.to_string(), v.map(str::to_string)));
        self.positions.push(pos);
        (n.to_string(), v.map(|v| format!("@{v}")).unwrap_or_default())
    }

    fn comp_ref(&mut self, pos: &'static str, want_import: Option<bool>, exp: &str) -> String {
        let pool: Vec<&(&str, Option<&str>, bool, &str)> = COMPS.iter().filter(|c| !c.0.starts_with("unrelated") && c.3 == exp && want_import.map_or(true, |w| c.2 == w)).collect();
        let c = **self.rng.pick(&pool);
        let idx = self.news;
        self.news += 1;
        if self.self_at == Some(idx) {
            // the document's own package: discovery must reject this
            self.positions.push("self-instantiation");
            return "test:doc".to_string();
        }
        self.keys.push((c.0.to_string(), c.1.map(str::to_string)));
        self.positions.push(pos);
        format!("{}{}", c.0, c.1.map(|v| format!("@{v}")).unwrap_or_default())
    }

    fn iface_items(&mut self, pos: &'static str, indent: &str) -> String {
        let mut s = String::new();
        for _ in 0..self.rng.range(1, 2) {
            let (p, v) = self.wit_ref(pos);
            self.k += 1;
            let k = self.k;
            match self.rng.below(3) {
                0 => s.push_str(&format!("{indent}use {p}/i0{v}.{{t as tt{k}}};\n{indent}h{k}: func(a: tt{k});\n")),
                1 => s.push_str(&format!("{indent}use {p}/i0{v}.{{t as uu{k}}};\n{indent}type z{k} = list<uu{k}>;\n")),
                _ => s.push_str(&format!("{indent}use {p}/i0{v}.{{t as vv{k}}};\n")),
            }
        }
        s
    }

    /// An expression evaluating to an instance that exports `ns:lib/i0`.
    fn expr_i0(&mut self, depth: usize, pos: &'static str) -> String {
        let nested_pos: &'static str = if depth == 0 { pos } else { pos };
        if depth > 0 && !self.lets.is_empty() && self.rng.chance(1, 5) {
            return self.rng.pick(&self.lets).clone();
        }
        if depth >= 3 || self.rng.chance(1, 3) {
            let c = self.comp_ref(nested_pos, Some(false), "i0");
            return format!("new {c} {{}}");
        }
        if depth < 3 && self.rng.chance(1, 4) {
            // two named arguments, each with its own nested `new`, in either order
            let c = self.comp_ref(nested_pos, Some(true), "w");
            let first_is_lib = self.rng.chance(1, 2);
            let mut parts: Vec<String> = Vec::new();
            for k in 0..2 {
                if (k == 0) == first_is_lib {
                    let inner = self.expr_i0(depth + 1, "new:nested-in-named-argument");
                    parts.push(format!("\"ns:lib/i0\": {inner}[\"ns:lib/i0\"]"));
                } else {
                    let o = self.comp_ref("new:nested-in-a-later-named-argument", Some(false), "o0");
                    let inner = if self.rng.chance(1, 2) { format!("new {o} {{}}") } else { format!("(new {o} {{}})") };
                    parts.push(format!("\"ns:other/i0\": {inner}[\"ns:other/i0\"]"));
                }
            }
            return format!("new {c} {{ {} }}", parts.join(", "));
        }
        let c = self.comp_ref(nested_pos, Some(true), "i0");
        match self.rng.below(6) {
            0 => format!("new {c} {{ ... }}"),
            1 => {
                let inner = self.expr_i0(depth + 1, "new:nested-in-named-argument");
                format!("new {c} {{ \"ns:lib/i0\": {inner}[\"ns:lib/i0\"] }}")
            }
            2 => {
                let inner = self.expr_i0(depth + 1, "new:nested-in-parentheses-in-named-argument");
                format!("new {c} {{ \"ns:lib/i0\": ({inner})[\"ns:lib/i0\"] }}")
            }
            3 => {
                let inner = self.expr_i0(depth + 1, "new:nested-in-double-parentheses");
                format!("new {c} {{ \"ns:lib/i0\": (({inner}))[\"ns:lib/i0\"], ... }}")
            }
            4 => {
                let inner = self.expr_i0(depth + 1, "new:nested-in-named-argument");
                format!("(new {c} {{ \"ns:lib/i0\": ({inner}[\"ns:lib/i0\"]) }})")
            }
            _ => {
                if let Some(l) = self.lets.last().cloned() {
                    format!("new {c} {{ ...{l} }}")
                } else {
                    format!("new {c} {{ ... }}")
                }
            }
        }
    }

    fn statement(&mut self) -> String {
        self.k += 1;
        let k = self.k;
        match self.rng.below(12) {
            0 => {
                let (p, v) = self.wit_ref("import:package-path");
                format!("import imp{k}: {p}/i0{v};\n")
            }
            1 => {
                let body = self.iface_items("import:inline-interface:use", "    ");
                format!("import impi{k}: interface {{\n{body}}};\n")
            }
            2 => {
                let body = self.iface_items("interface:use", "    ");
                format!("interface if{k} {{\n{body}}}\n")
            }
            3 | 4 | 5 => {
                let mut s = format!("world wd{k} {{\n");
                for _ in 0..self.rng.range(1, 4) {
                    self.k += 1;
                    let j = self.k;
                    match self.rng.below(8) {
                        0 => {
                            let (p, v) = self.wit_ref("world:use");
                            s.push_str(&format!("    use {p}/i0{v}.{{t as wt{j}}};\n    import wf{j}: func(a: wt{j});\n"));
                        }
                        1 => {
                            let (p, v) = self.wit_ref("world:import-path");
                            s.push_str(&format!("    import {p}/i0{v};\n"));
                        }
                        2 => {
                            let (p, v) = self.wit_ref("world:export-path");
                            s.push_str(&format!("    export {p}/i1{v};\n"));
                        }
                        3 => {
                            let body = self.iface_items("world:import-inline-interface:use", "        ");
                            s.push_str(&format!("    import n{j}: interface {{\n{body}    }};\n"));
                        }
                        4 => {
                            let body = self.iface_items("world:export-inline-interface:use", "        ");
                            s.push_str(&format!("    export m{j}: interface {{\n{body}    }};\n"));
                        }
                        5 => {
                            let (p, v) = self.wit_ref("world:include");
                            s.push_str(&format!("    include {p}/w1{v};\n"));
                        }
                        6 => s.push_str(&format!("    import pf{j}: func() -> u8;\n")),
                        _ => {
                            // the document's own package by path: never a discovered package
                            s.push_str("    import test:doc/own;\n");
                            self.positions.push("own-package-path");
                        }
                    }
                }
                s.push_str("}\n");
                s
            }
            6 | 7 | 8 => {
                let e = self.expr_i0(0, "let:new");
                let name = format!("x{k}");
                let s = format!("let {name} = {e};\n");
                self.lets.push(name);
                s
            }
            9 | 10 => {
                let e = self.expr_i0(0, "export:new");
                if e.starts_with("new") || e.starts_with('(') {
                    format!("export {e}[\"ns:lib/i0\"] as e{k};\n")
                } else {
                    format!("export {e}[\"ns:lib/i0\"] as e{k};\n")
                }
            }
            _ => {
                let c = self.comp_ref("let:new", Some(true), "i1");
                let inner = self.expr_i0(1, "new:nested-in-named-argument");
                let name = format!("y{k}");
                format!("let {name} = new {c} {{ \"ns:lib/i0\": {inner}[\"ns:lib/i0\"] }};\n")
            }
        }
    }
}

pub struct GenDoc {
    pub text: String,
    pub keys: Vec<Key>,
    pub positions: Vec<&'static str>,
    pub self_inst: bool,
}

pub fn gen_doc(rng: &mut Rng) -> GenDoc {
    let want_self = rng.chance(1, 8);
    let missing = rng.chance(1, 10);
    // a first pass counts the `new`s so that the self instantiation can be placed on any of them
    let seed = rng.next_u64();
    let mut news = 0;
    for pass in 0..2 {
        let mut r = Rng::new(seed);
        let self_at = if pass == 1 && want_self && news > 0 { Some((seed % news as u64) as usize) } else { None };
        let mut g = DocGen { rng: &mut r, keys: vec![], positions: vec![], k: 0, lets: vec![], self_at, news: 0, missing };
        // the document's own package carries a version half of the time (paths into it stay
        // unversioned: they are local whatever the version)
        let mut text = String::from(if seed % 2 == 0 { "package test:doc@1.0.0" } else { "package test:doc" });
        if g.rng.chance(1, 4) {
            let (p, v) = g.wit_ref("targets");
            text.push_str(&format!(" targets {p}/w1{v}"));
        }
        text.push_str(";\n\ninterface own {\n    q: func();\n}\n\n");
        for _ in 0..g.rng.range(1, 6) {
            let s = g.statement();
            text.push_str(&s);
            text.push('\n');
        }
        news = g.news;
        if pass == 1 || !want_self || news == 0 {
            return GenDoc { text, keys: g.keys, positions: g.positions, self_inst: self_at.is_some() };
        }
    }
    unreachable!()
}

fn outcome(doc: &Document, lib: &Lib, which: &dyn Fn(&Key) -> bool) -> String {
    let owned: Vec<(&Key, Option<Version>, &Vec<u8>)> = lib.all.iter().filter(|(k, _)| which(k)).map(|(k, b)| (k, k.1.as_ref().map(|v| Version::parse(v).unwrap()), b)).collect();
    let mut map: IndexMap<BorrowedPackageKey, Vec<u8>> = IndexMap::new();
    for (k, v, b) in &owned {
        map.insert(BorrowedPackageKey::from_name_and_version(&k.0, v.as_ref()), (*b).clone());
    }
    match catch(|| match doc.resolve(map) {
        Ok(r) => match r.encode(wac_graph::EncodeOptions { define_components: true, validate: false, processor: None }) {
            Ok(b) => format!("ok:{}", sha256_hex(&b)),
            Err(e) => format!("encode-error:{e:#}"),
        },
        Err(e) => format!("resolve-error:{e:?}"),
    }) {
        Ok(s) => s,
        Err(p) => format!("panic:{p}"),
    }
}

pub fn run(ctx: &mut Ctx) {
    let lib = match build_lib() {
        Ok(l) => l,
        Err(e) => {
            ctx.note("harness_error", json!(e));
            ctx.count("harness:library-build-failed");
            return;
        }
    };
    let total = ctx.n(30_000, 10_000_000);
    for case in ctx.cases(total) {
        if ctx.out_of_budget() {
            ctx.count("budget-stop");
            break;
        }
        ctx.begin(case);
        let mut rng = ctx.rng(case);
        let g = gen_doc(&mut rng);
        let input = json!({"text": g.text, "expected_keys": g.keys});
        let doc = match Document::parse(&g.text) {
            Ok(d) => d,
            Err(e) => {
                ctx.count("harness:generated-document-does-not-parse");
                ctx.note("last_parse_error", json!(format!("{e:?}\n{}", g.text)));
                continue;
            }
        };
        ctx.eval();
        let discovered = catch(|| wac_resolver::packages(&doc).map(|m| m.keys().map(|k| (k.name.to_string(), k.version.map(|v| v.to_string()))).collect::<Vec<Key>>()));
        let discovered = match discovered {
            Ok(d) => d,
            Err(p) => {
                ctx.violation(case, &format!("C17:discovery-panic:{}", normalize_msg(&p.message)), p.to_string(), input);
                continue;
            }
        };
        if g.self_inst {
            ctx.count("self-instantiation-documents");
            match &discovered {
                Err(wac_resolver::Error::CannotInstantiateSelf { .. }) => ctx.count("self-instantiation-rejected"),
                other => ctx.violation(case, "C17:self-instantiation-not-rejected", format!("the document instantiates its own package but discovery returned {:?}", other.as_ref().map_err(|e| e.to_string())), input),
            }
            continue;
        }
        let discovered = match discovered {
            Ok(d) => d,
            Err(e) => {
                ctx.violation(case, &format!("C17:discovery-failed:{}", normalize_msg(&e.to_string())), format!("discovery failed on a document without self instantiation: {e}"), input);
                continue;
            }
        };
        // the syntactic reference set, first-occurrence order
        let mut expected: Vec<Key> = Vec::new();
        for k in &g.keys {
            if !expected.contains(k) {
                expected.push(k.clone());
            }
        }
        for p in &g.positions {
            ctx.count(&format!("position:{p}"));
        }
        ctx.add("references", g.keys.len() as u64);
        let missing: Vec<&Key> = expected.iter().filter(|k| !discovered.contains(k)).collect();
        let extra: Vec<&Key> = discovered.iter().filter(|k| !expected.contains(k)).collect();
        if !missing.is_empty() {
            let pos: Vec<&str> = g.keys.iter().zip(g.positions.iter().filter(|p| **p != "own-package-path" && **p != "self-instantiation")).filter(|(k, _)| missing.contains(k)).map(|(_, p)| *p).collect();
            ctx.violation(case, &format!("C17:referenced-package-not-discovered:{}", pos.first().copied().unwrap_or("?")), format!("referenced but not discovered: {missing:?} (positions {pos:?}); discovered {discovered:?}"), input.clone());
        }
        if !extra.is_empty() {
            let own = extra.iter().any(|k| k.0 == "test:doc");
            ctx.violation(case, if own { "C17:own-package-discovered" } else { "C17:unreferenced-package-discovered" }, format!("discovered but not referenced: {extra:?}"), input.clone());
        }
        if missing.is_empty() && extra.is_empty() {
            ctx.count("discovered-set-equals-reference-set");
            if discovered == expected {
                ctx.count("discovered-in-first-reference-order");
            }
        }
        // resolution with the whole library, the discovered packages only, and a random superset
        ctx.eval();
        let all = outcome(&doc, &lib, &|_| true);
        let only = outcome(&doc, &lib, &|k| discovered.contains(k));
        let mut r2 = ctx.rng_for("C17-superset", case);
        let extra_set: Vec<Key> = lib.all.iter().map(|(k, _)| k.clone()).filter(|_| r2.chance(1, 2)).collect();
        let sup = outcome(&doc, &lib, &|k| discovered.contains(k) || extra_set.contains(k));
        ctx.count(&format!("outcome:{}", all.split(':').next().unwrap_or("?")));
        if all.starts_with("encode-error") {
            ctx.note("last_encode_error", json!({"error": all, "text": g.text}));
        }
        if all.starts_with("resolve-error") {
            let variant: String = all.trim_start_matches("resolve-error:").chars().take_while(|c| c.is_alphanumeric()).collect();
            ctx.count(&format!("resolve-error:{variant}"));
        }
        if all.starts_with("panic") || only.starts_with("panic") {
            // panics in resolution/encoding belong to other properties; not compared here
            ctx.count("pipeline-panic-skipped");
            continue;
        }
        if only != all {
            let unknown = only.contains("UnknownPackage");
            ctx.violation(case, if unknown { "C17:resolution-asks-for-undiscovered-package" } else { "C17:outcome-differs:discovered-only-vs-all" }, format!("with every package: {}\nwith the discovered packages only: {}", crate::util::clip(&all, 400), crate::util::clip(&only, 400)), input.clone());
        } else if sup != all {
            ctx.violation(case, "C17:outcome-differs:superset-vs-all", format!("with every package: {}\nwith discovered + {extra_set:?}: {}", crate::util::clip(&all, 400), crate::util::clip(&sup, 400)), input.clone());
        } else {
            ctx.count("three-way-outcomes-equal");
        }
        let mut shape: Vec<&str> = g.positions.clone();
        shape.sort();
        ctx.shape_str(&format!("{shape:?}|{}", all.split(':').next().unwrap_or("?")));
        if ctx.samples.len() < 2 && g.positions.len() >= 4 {
            ctx.sample(json!({"case": case, "text": g.text, "discovered": discovered}));
        }
    }
}
