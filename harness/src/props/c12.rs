//! C12 — the parser accepts exactly the documented grammar and builds the intended tree.
//!
//! Monitor: documents generated from the EBNF must parse to the generator's tree; token-level
//! mutants must be accepted/rejected exactly as the reference recogniser (M4) says; rejections
//! must carry a span inside the source; forbidden code points are rejected wherever they occur.

use crate::ctx::Ctx;
use crate::util::{catch, clip, normalize_msg, short_location};
use crate::wacgen::{self, Gen, Tok, K};
use miette::Diagnostic;
use serde_json::{json, Value};
use wac_parser::Document;

pub enum ParseOutcome {
    Ok(Value),
    Err { message: String, variant: String, spans: Vec<(usize, usize)> },
    Panic(String),
}

pub fn parse_outcome(src: &str) -> ParseOutcome {
    match catch(|| match Document::parse(src) {
        Ok(d) => ParseOutcome::Ok(serde_json::to_value(&d).unwrap_or(Value::Null)),
        Err(e) => {
            let mut spans = Vec::new();
            if let Some(labels) = e.labels() {
                for l in labels {
                    spans.push((l.offset(), l.len()));
                }
            }
            let dbg = format!("{e:?}");
            let variant = dbg.split(|c: char| !c.is_alphanumeric()).next().unwrap_or("").to_string();
            ParseOutcome::Err { message: e.to_string(), variant, spans }
        }
    }) {
        Ok(o) => o,
        Err(p) => ParseOutcome::Panic(format!("{}: {}", short_location(&p.location), p.message)),
    }
}

pub fn span_ok(src: &str, off: usize, len: usize) -> bool {
    off <= src.len() && off + len <= src.len() && src.is_char_boundary(off) && src.is_char_boundary(off + len)
}

fn tok_class(t: Option<&Tok>) -> String {
    match t {
        None => "<end>".into(),
        Some(t) => match t.k {
            K::Kw | K::Sym => format!("`{}`", t.text),
            K::Ident => "id".into(),
            K::Str => "string".into(),
            K::PkgName => "package-name".into(),
            K::PkgPath => "package-path".into(),
            K::Doc => "doc".into(),
        },
    }
}

/// First path at which two JSON trees differ.
pub fn first_diff(a: &Value, b: &Value, path: &str) -> Option<String> {
    match (a, b) {
        (Value::Object(x), Value::Object(y)) => {
            for (k, v) in x {
                match y.get(k) {
                    None => return Some(format!("{path}.{k} (missing on the right)")),
                    Some(w) => {
                        if let Some(d) = first_diff(v, w, &format!("{path}.{k}")) {
                            return Some(d);
                        }
                    }
                }
            }
            for k in y.keys() {
                if !x.contains_key(k) {
                    return Some(format!("{path}.{k} (missing on the left)"));
                }
            }
            None
        }
        (Value::Array(x), Value::Array(y)) => {
            if x.len() != y.len() {
                return Some(format!("{path} (length {} vs {})", x.len(), y.len()));
            }
            for (i, (v, w)) in x.iter().zip(y).enumerate() {
                if let Some(d) = first_diff(v, w, &format!("{path}[{i}]")) {
                    return Some(d);
                }
            }
            None
        }
        _ => {
            if a == b {
                None
            } else {
                Some(format!("{path}: {} vs {}", clip(&a.to_string(), 80), clip(&b.to_string(), 80)))
            }
        }
    }
}

/// Abstracts indices out of a diff path so that signatures are stable.
fn path_shape(p: &str) -> String {
    let mut s = String::new();
    let mut in_br = false;
    for c in p.chars() {
        match c {
            '[' => {
                in_br = true;
                s.push('[');
            }
            ']' => {
                in_br = false;
                s.push(']');
            }
            c if in_br && c.is_ascii_digit() => {}
            ':' => break,
            ' ' => break,
            c => s.push(c),
        }
    }
    s
}

fn check_mutant(ctx: &mut Ctx, case: u64, toks: &[Tok], kind: &str, text: &str) {
    ctx.eval();
    let reference = wacgen::recognise(toks);
    let got = parse_outcome(text);
    match (&reference, &got) {
        (_, ParseOutcome::Panic(p)) => {
            ctx.violation(case, &format!("C12:parser-panic:{}", normalize_msg(p)), format!("Document::parse panicked: {p}"), json!({"text": text}));
        }
        (Ok(()), ParseOutcome::Ok(_)) => ctx.count(&format!("mutant:{kind}:still-grammatical")),
        (Err(_), ParseOutcome::Err { spans, .. }) => {
            ctx.count(&format!("mutant:{kind}:rejected"));
            for (o, l) in spans {
                if !span_ok(text, *o, *l) {
                    ctx.violation(case, "C12:error-span-outside-source", format!("span ({o},{l}) for source of {} bytes", text.len()), json!({"text": text}));
                }
            }
            if spans.is_empty() {
                ctx.violation(case, "C12:error-without-location", "parse error carries no label".into(), json!({"text": text}));
            }
        }
        (Err(pos), ParseOutcome::Ok(_)) => {
            let filtered: Vec<&Tok> = toks.iter().filter(|t| t.k != K::Doc).collect();
            let prev = if *pos > 0 { filtered.get(pos - 1).copied() } else { None };
            let at = filtered.get(*pos).copied();
            ctx.violation(
                case,
                &format!("C12:accepted-but-not-derivable:at:{} {}", tok_class(prev), tok_class(at)),
                format!("the reference recogniser rejects the token sequence at token {pos} ({} after {}), wac accepts the text", tok_class(at), tok_class(prev)),
                json!({"text": text, "mutation": kind}),
            );
        }
        (Ok(()), ParseOutcome::Err { message, variant, .. }) => {
            ctx.violation(
                case,
                &format!("C12:rejected-but-derivable:{variant}:{}", normalize_msg(message)),
                format!("the reference recogniser accepts the token sequence, wac rejects it: {message}"),
                json!({"text": text, "mutation": kind}),
            );
        }
    }
}

fn plain(toks: &[Tok]) -> String {
    let mut s = String::new();
    for (i, t) in toks.iter().enumerate() {
        if i > 0 {
            s.push(if toks[i - 1].k == K::Doc { '\n' } else { ' ' });
        }
        s.push_str(&t.text);
    }
    if toks.last().map(|t| t.k == K::Doc).unwrap_or(false) {
        s.push('\n');
    }
    s
}

const FORBIDDEN: [char; 22] = [
    '\u{202a}', '\u{202b}', '\u{202c}', '\u{202d}', '\u{202e}', '\u{2066}', '\u{2067}', '\u{2068}', '\u{2069}',
    '\u{149}', '\u{673}', '\u{f77}', '\u{f79}', '\u{17a3}', '\u{17a4}', '\u{17b4}', '\u{17b5}', '\u{0}', '\u{7}',
    '\u{c}', '\u{1b}', '\u{7f}',
];

pub fn run(ctx: &mut Ctx) {
    if let Some(input) = ctx.replay_input.clone() {
        // replay: the recorded text is re-parsed and compared with the reference on a best-effort
        // basis (the token list is regenerated from the case when available)
        let text = input["text"].as_str().unwrap_or("").to_string();
        match parse_outcome(&text) {
            ParseOutcome::Ok(_) => println!("wac accepts the recorded text"),
            ParseOutcome::Err { message, .. } => println!("wac rejects the recorded text: {message}"),
            ParseOutcome::Panic(p) => println!("wac panics on the recorded text: {p}"),
        }
    }
    let total = ctx.n(15_000, 8_000_000);
    let mutants_per_doc = 10;
    for case in ctx.cases(total) {
        if ctx.out_of_budget() {
            ctx.count("budget-stop");
            break;
        }
        ctx.begin(case);
        let mut rng = ctx.rng(case);
        let mut lay_rng = rng.fork();
        let (toks, expected, productions) = {
            let mut g = Gen::new(&mut rng);
            let max = g.rng.range(1, 8);
            let expected = g.document(max);
            (g.toks, expected, g.productions)
        };
        for (k, v) in &productions {
            ctx.add(&format!("production:{k}"), *v);
        }
        if let Err(pos) = wacgen::recognise(&toks) {
            ctx.count("harness-inconsistency:generator-vs-recogniser");
            ctx.note("inconsistency", json!({"pos": pos, "text": plain(&toks)}));
            continue;
        }
        // positive side
        let text = wacgen::layout(&mut lay_rng, &toks, true);
        ctx.eval();
        match parse_outcome(&text) {
            ParseOutcome::Ok(tree) => {
                ctx.count("positive:accepted");
                let got = wacgen::drop_docs(&wacgen::strip_spans(&tree));
                let want = wacgen::drop_docs(&expected);
                if let Some(d) = first_diff(&want, &got, "$") {
                    ctx.violation(case, &format!("C12:tree-differs:{}", path_shape(&d)), format!("expected vs parsed tree differ at {d}"), json!({"text": text}));
                }
                let mut spans = Vec::new();
                wacgen::collect_spans(&tree, &mut spans);
                for (o, l) in spans {
                    if !span_ok(&text, o as usize, l as usize) {
                        ctx.violation(case, "C12:tree-span-outside-source", format!("span ({o},{l}) in a source of {} bytes", text.len()), json!({"text": text}));
                        break;
                    }
                }
            }
            ParseOutcome::Err { message, variant, .. } => {
                ctx.violation(case, &format!("C12:valid-document-rejected:{variant}:{}", normalize_msg(&message)), format!("a grammar-generated document is rejected: {message}"), json!({"text": text}));
            }
            ParseOutcome::Panic(p) => {
                ctx.violation(case, &format!("C12:parser-panic:{}", normalize_msg(&p)), format!("Document::parse panicked: {p}"), json!({"text": text}));
            }
        }
        let kinds: std::collections::BTreeSet<&str> = productions
            .keys()
            .filter(|k| k.ends_with("-statement") || k.ends_with("-decl"))
            .copied()
            .collect();
        if kinds.len() >= 3 {
            ctx.shape_str(&plain(&toks).chars().filter(|c| !c.is_ascii_digit()).collect::<String>());
            if ctx.samples.len() < 2 {
                ctx.sample(json!({"case": case, "document": text}));
            }
        }
        // negative side: token-level mutants
        for _ in 0..mutants_per_doc {
            let mut m = toks.clone();
            let kind = wacgen::mutate(&mut rng, &mut m);
            if rng.chance(1, 6) {
                wacgen::mutate(&mut rng, &mut m);
            }
            let text = plain(&m);
            check_mutant(ctx, case, &m, kind, &text);
        }
        // lexical negatives
        let base = plain(&toks);
        {
            // forbidden code point at a random char boundary (possibly inside a comment or string)
            let with_comment = format!("{base}\n// trailing comment\n/* block */ ");
            let positions: Vec<usize> = with_comment.char_indices().map(|(i, _)| i).collect();
            let at = *rng.pick(&positions);
            // any member of the forbidden classes: C0 controls other than tab / LF / CR, DEL, the C1
            // controls U+0080..U+009F, bidirectional overrides and isolates, deprecated code points
            let c = match rng.below(4) {
                0 => {
                    let c0: Vec<char> = (0u32..0x20).filter(|c| ![9, 10, 13].contains(c)).chain([0x7f]).filter_map(char::from_u32).collect();
                    *rng.pick(&c0)
                }
                1 => char::from_u32(0x80 + rng.below(0x20) as u32).unwrap(),
                _ => *rng.pick(&FORBIDDEN),
            };
            ctx.count(match c as u32 {
                0..=0x1f | 0x7f => "lexical:forbidden:c0-control",
                0x80..=0x9f => "lexical:forbidden:c1-control",
                0x202a..=0x202e | 0x2066..=0x2069 => "lexical:forbidden:bidi",
                _ => "lexical:forbidden:deprecated",
            });
            let mut t = with_comment.clone();
            t.insert(at, c);
            ctx.eval();
            match parse_outcome(&t) {
                ParseOutcome::Err { variant, spans, .. } if variant == "Lexer" => {
                    ctx.count("lexical:forbidden-codepoint-rejected");
                    if spans.iter().any(|(o, l)| !span_ok(&t, *o, *l)) {
                        ctx.violation(case, "C12:error-span-outside-source", "forbidden code point error span".into(), json!({"text": t}));
                    }
                }
                ParseOutcome::Panic(p) => ctx.violation(case, &format!("C12:parser-panic:{}", normalize_msg(&p)), p, json!({"text": t})),
                _ => ctx.violation(case, &format!("C12:forbidden-codepoint-accepted:U+{:04X}", c as u32), format!("a text containing U+{:04X} at byte {at} is not rejected by the screening", c as u32), json!({"text": t})),
            }
        }
        {
            let t = match rng.below(4) {
                0 => format!("{base} \"unterminated"),
                1 => {
                    if rng.chance(1, 3) {
                        format!("{base} /* unterminated /* nested */")
                    } else {
                        ctx.count("lexical:generated-unterminated-comment");
                        format!("{base} {}", wacgen::gen_unterminated_comment(&mut rng))
                    }
                }
                2 => format!("{base} %"),
                _ => format!("{base} {}", rng.pick(&["$", "!", "#", "-", "&", "0", "1.0", "'a'", "\\"])),
            };
            ctx.eval();
            match parse_outcome(&t) {
                ParseOutcome::Err { spans, .. } => {
                    ctx.count("lexical:bad-token-rejected");
                    if spans.iter().any(|(o, l)| !span_ok(&t, *o, *l)) {
                        ctx.violation(case, "C12:error-span-outside-source", "lexical error span".into(), json!({"text": t}));
                    }
                }
                ParseOutcome::Ok(_) => ctx.violation(case, "C12:lexically-invalid-text-accepted", "accepted".into(), json!({"text": t})),
                ParseOutcome::Panic(p) => ctx.violation(case, &format!("C12:parser-panic:{}", normalize_msg(&p)), p, json!({"text": t})),
            }
        }
        // invalid semver after `@`, empty bodies
        {
            let t = match rng.below(6) {
                0 => "package a:b@1.0;".to_string(),
                1 => "package a:b; import x: c:d/e@01.2.3;".to_string(),
                2 => "package a:b; record r { }".to_string(),
                3 => "package a:b; variant v { }".to_string(),
                4 => "package a:b; enum e { } flags f { }".to_string(),
                _ => "package a:b; type t = tuple<>;".to_string(),
            };
            ctx.eval();
            match parse_outcome(&t) {
                ParseOutcome::Err { .. } => ctx.count("lexical:invalid-version-or-empty-body-rejected"),
                ParseOutcome::Ok(_) => ctx.violation(case, "C12:invalid-version-or-empty-body-accepted", t.clone(), json!({"text": t})),
                ParseOutcome::Panic(p) => ctx.violation(case, &format!("C12:parser-panic:{}", normalize_msg(&p)), p, json!({"text": t})),
            }
        }
    }
}
