//! C18 — file-system dependency lookup follows the documented layout and precedence.
//!
//! Monitor: decision table M5 (written from README.md / the property statement) evaluated over
//! real temporary directory trees; compared with `FileSystemPackageResolver::resolve`.
//! This file is compiled twice: into the main harness (wac-resolver feature `wat` ON) and into
//! `harness-nowat` (feature OFF); `crate::WAT_ENABLED` tells which lane this is.

use crate::ctx::Ctx;
use crate::util::{catch, sha256_hex};
use indexmap::IndexMap;
use miette::SourceSpan;
use semver::Version;
use serde_json::json;
use std::collections::HashMap;
use std::path::{Path, PathBuf};
use wac_resolver::{Error, FileSystemPackageResolver};
use wac_types::BorrowedPackageKey;

const WASM_A: &str = "(component (import \"a\" (func)))";
const WASM_B: &str = "(component (import \"b\" (func)))";
const WAT_TEXT: &str = "(component (import \"from-wat\" (func)))";
const WIT_TEXT: &str = "package test:witpkg;\n\ninterface i {\n    f: func();\n}\n";

#[derive(Clone, Copy, Debug, PartialEq, Eq)]
enum Layout {
    Absent,
    WitDir,
    EmptyDir,
    WasmOnly,
    WatOnly,
    Both,
    BadWat,
    /// a plain file at the candidate path itself (no extension) plus `.wasm`
    BareFileAndWasm,
    /// only decoys that a `set_extension` implementation would pick (`1.0.wasm` for `1.0.0`)
    DecoyOnly,
}

#[derive(Clone, Copy, Debug, PartialEq, Eq)]
enum Override {
    None,
    Wasm,
    Wat,
    Wit,
    Dangling,
    Directory,
}

#[derive(Debug, PartialEq, Eq, Clone)]
enum Outcome {
    Bytes(String),
    Skipped,
    Unknown,
    Failure,
    Other(String),
}

fn wat_bytes(text: &str) -> Vec<u8> {
    wat::parse_str(text).expect("oracle wat")
}

fn wit_dir_bytes(dir: &Path) -> Option<Vec<u8>> {
    let mut resolve = wit_parser::Resolve::new();
    let (pkg, _) = resolve.push_dir(dir).ok()?;
    wit_component::encode(&resolve, pkg).ok()
}

fn wit_file_bytes(file: &Path) -> Option<Vec<u8>> {
    let mut resolve = wit_parser::Resolve::new();
    let pkg = resolve.push_file(file).ok()?;
    wit_component::encode(&resolve, pkg).ok()
}

fn candidate(root: &Path, name: &str, version: Option<&Version>) -> PathBuf {
    let mut p = root.to_path_buf();
    for seg in name.split(':') {
        p.push(seg);
    }
    if let Some(v) = version {
        p.push(v.to_string());
    }
    p
}

fn with_ext(p: &Path, ext: &str) -> PathBuf {
    let mut s = p.as_os_str().to_os_string();
    s.push(".");
    s.push(ext);
    PathBuf::from(s)
}

fn build_layout(root: &Path, name: &str, version: Option<&Version>, layout: Layout) {
    let p = candidate(root, name, version);
    std::fs::create_dir_all(p.parent().unwrap()).unwrap();
    match layout {
        Layout::Absent => {}
        Layout::WitDir => {
            std::fs::create_dir_all(&p).unwrap();
            std::fs::write(p.join("a.wit"), WIT_TEXT).unwrap();
        }
        Layout::EmptyDir => std::fs::create_dir_all(&p).unwrap(),
        Layout::WasmOnly => std::fs::write(with_ext(&p, "wasm"), wat_bytes(WASM_A)).unwrap(),
        Layout::WatOnly => std::fs::write(with_ext(&p, "wat"), WAT_TEXT).unwrap(),
        Layout::Both => {
            std::fs::write(with_ext(&p, "wasm"), wat_bytes(WASM_A)).unwrap();
            std::fs::write(with_ext(&p, "wat"), WAT_TEXT).unwrap();
        }
        Layout::BadWat => {
            std::fs::write(with_ext(&p, "wasm"), wat_bytes(WASM_A)).unwrap();
            std::fs::write(with_ext(&p, "wat"), "(component (this is not wat").unwrap();
        }
        Layout::BareFileAndWasm => {
            std::fs::write(&p, b"not a component").unwrap();
            std::fs::write(with_ext(&p, "wasm"), wat_bytes(WASM_B)).unwrap();
        }
        Layout::DecoyOnly => {
            // what Path::set_extension would look for
            let mut q = p.clone();
            q.set_extension("wasm");
            if q != with_ext(&p, "wasm") {
                std::fs::write(&q, wat_bytes(WASM_B)).unwrap();
                let mut r = p.clone();
                r.set_extension("wat");
                std::fs::write(&r, WAT_TEXT).unwrap();
            }
        }
    }
}

/// M5: the documented outcome.
fn model(root: &Path, name: &str, version: Option<&Version>, layout: Layout, ov: Override, ov_path: &Path, error_on_unknown: bool, wat_on: bool) -> Outcome {
    let use_override = ov != Override::None && version.is_none();
    if use_override {
        return match ov {
            Override::Dangling | Override::Directory => Outcome::Failure,
            Override::Wasm => Outcome::Bytes(sha256_hex(&wat_bytes(WASM_B))),
            Override::Wat => {
                if wat_on {
                    Outcome::Bytes(sha256_hex(&wat_bytes(WAT_TEXT)))
                } else {
                    Outcome::Bytes(sha256_hex(WAT_TEXT.as_bytes()))
                }
            }
            Override::Wit => match wit_file_bytes(ov_path) {
                Some(b) => Outcome::Bytes(sha256_hex(&b)),
                None => Outcome::Failure,
            },
            Override::None => unreachable!(),
        };
    }
    let p = candidate(root, name, version);
    let missing = if error_on_unknown { Outcome::Unknown } else { Outcome::Skipped };
    match layout {
        Layout::Absent | Layout::DecoyOnly => missing,
        Layout::WitDir => match wit_dir_bytes(&p) {
            Some(b) => Outcome::Bytes(sha256_hex(&b)),
            None => Outcome::Failure,
        },
        Layout::EmptyDir => Outcome::Failure,
        Layout::WasmOnly => Outcome::Bytes(sha256_hex(&wat_bytes(WASM_A))),
        Layout::WatOnly => {
            if wat_on {
                Outcome::Bytes(sha256_hex(&wat_bytes(WAT_TEXT)))
            } else {
                missing
            }
        }
        Layout::Both => {
            if wat_on {
                Outcome::Bytes(sha256_hex(&wat_bytes(WAT_TEXT)))
            } else {
                Outcome::Bytes(sha256_hex(&wat_bytes(WASM_A)))
            }
        }
        Layout::BadWat => {
            if wat_on {
                Outcome::Failure
            } else {
                Outcome::Bytes(sha256_hex(&wat_bytes(WASM_A)))
            }
        }
        Layout::BareFileAndWasm => Outcome::Bytes(sha256_hex(&wat_bytes(WASM_B))),
    }
}

fn observe(root: &Path, name: &str, version: Option<&Version>, overrides: HashMap<String, PathBuf>, error_on_unknown: bool) -> Result<Outcome, crate::util::Panicked> {
    catch(|| {
        let resolver = FileSystemPackageResolver::new(root, overrides, error_on_unknown);
        let mut keys: IndexMap<BorrowedPackageKey, SourceSpan> = IndexMap::new();
        keys.insert(BorrowedPackageKey::from_name_and_version(name, version), SourceSpan::new(0.into(), 0));
        match resolver.resolve(&keys) {
            Ok(map) => {
                if map.len() > 1 {
                    return Outcome::Other(format!("{} entries for one key", map.len()));
                }
                match map.get(&BorrowedPackageKey::from_name_and_version(name, version)) {
                    Some(b) => Outcome::Bytes(sha256_hex(b)),
                    None if map.is_empty() => Outcome::Skipped,
                    None => Outcome::Other("bytes under another key".into()),
                }
            }
            Err(Error::UnknownPackage { name: n, .. }) => {
                if n == name { Outcome::Unknown } else { Outcome::Other(format!("UnknownPackage names `{n}`")) }
            }
            Err(Error::PackageResolutionFailure { name: n, .. }) => {
                if n == name { Outcome::Failure } else { Outcome::Other(format!("PackageResolutionFailure names `{n}`")) }
            }
            Err(e) => Outcome::Other(format!("{e:?}")),
        }
    })
}

pub fn run(ctx: &mut Ctx) {
    let wat_on = crate::WAT_ENABLED;
    let lane = if wat_on { "wat-on" } else { "wat-off" };
    let keys: Vec<(&str, Option<&str>)> = vec![
        ("test:foo", None),
        ("test:foo", Some("1.0.0")),
        ("test:foo", Some("0.0.1")),
        ("test:foo-bar", Some("1.2.3-rc.1+b.5")),
        ("a:b:c", None),
        ("a:b:c", Some("10.20.30")),
    ];
    let layouts = [
        Layout::Absent, Layout::WitDir, Layout::EmptyDir, Layout::WasmOnly, Layout::WatOnly, Layout::Both, Layout::BadWat,
        Layout::BareFileAndWasm, Layout::DecoyOnly,
    ];
    let overrides = [Override::None, Override::Wasm, Override::Wat, Override::Wit, Override::Dangling, Override::Directory];
    let mut case = 0u64;
    let scratch = PathBuf::from(&ctx.scratch);
    let _ = std::fs::create_dir_all(&scratch);
    for (name, ver) in &keys {
        let version = ver.map(|v| Version::parse(v).unwrap());
        for layout in layouts {
            for ov in overrides {
                for mode in [true, false] {
                    case += 1;
                    if !ctx.mine(case) {
                        continue;
                    }
                    ctx.begin(case);
                    let root = scratch.join(format!("c18-{lane}-{case}"));
                    let _ = std::fs::remove_dir_all(&root);
                    let deps = root.join("deps");
                    std::fs::create_dir_all(&deps).unwrap();
                    build_layout(&deps, name, version.as_ref(), layout);
                    let ov_dir = root.join("ov");
                    std::fs::create_dir_all(&ov_dir).unwrap();
                    let ov_path = match ov {
                        Override::None => ov_dir.join("unused"),
                        Override::Wasm => {
                            let p = ov_dir.join("x.wasm");
                            std::fs::write(&p, wat_bytes(WASM_B)).unwrap();
                            p
                        }
                        Override::Wat => {
                            let p = ov_dir.join("x.wat");
                            std::fs::write(&p, WAT_TEXT).unwrap();
                            p
                        }
                        Override::Wit => {
                            let p = ov_dir.join("x.wit");
                            std::fs::write(&p, WIT_TEXT).unwrap();
                            p
                        }
                        Override::Dangling => ov_dir.join("missing.wasm"),
                        Override::Directory => {
                            let p = ov_dir.join("adir");
                            std::fs::create_dir_all(&p).unwrap();
                            std::fs::write(p.join("a.wit"), WIT_TEXT).unwrap();
                            p
                        }
                    };
                    let mut map = HashMap::new();
                    if ov != Override::None {
                        map.insert(name.to_string(), ov_path.clone());
                    }
                    // an override for another package must never matter
                    map.insert("other:pkg".to_string(), ov_dir.join("whatever.wasm"));
                    let want = model(&deps, name, version.as_ref(), layout, ov, &ov_path, mode, wat_on);
                    ctx.eval();
                    let input = json!({"lane": lane, "key": format!("{name}{}", ver.map(|v| format!("@{v}")).unwrap_or_default()), "layout": format!("{layout:?}"), "override": format!("{ov:?}"), "error_on_unknown": mode});
                    match observe(&deps, name, version.as_ref(), map, mode) {
                        Err(p) => ctx.violation(case, &format!("C18:panic:{lane}:{layout:?}:{ov:?}"), p.to_string(), input.clone()),
                        Ok(got) => {
                            let class = |o: &Outcome| match o {
                                Outcome::Bytes(_) => "bytes",
                                Outcome::Skipped => "skipped",
                                Outcome::Unknown => "unknown",
                                Outcome::Failure => "failure",
                                Outcome::Other(_) => "other",
                            };
                            ctx.count(&format!("outcome:{}", class(&got)));
                            if got != want {
                                let versioned = if version.is_some() { "versioned" } else { "unversioned" };
                                ctx.violation(
                                    case,
                                    &format!("C18:{lane}:{versioned}:{layout:?}:{ov:?}:unknown={mode}:{}-vs-{}", class(&got), class(&want)),
                                    format!("resolve gives {got:?}, the documented lookup gives {want:?}"),
                                    input.clone(),
                                );
                            }
                            if layout != Layout::Absent || ov != Override::None {
                                ctx.shape_str(&format!("{lane}|{name}|{ver:?}|{layout:?}|{ov:?}|{mode}"));
                            }
                            if ctx.samples.len() < 3 {
                                ctx.sample(json!({"input": input, "outcome": format!("{got:?}")}));
                            }
                        }
                    }
                    let _ = std::fs::remove_dir_all(&root);
                }
            }
        }
    }
    ctx.note(&format!("sum:decision-table-rows:{lane}"), json!(case));
    ctx.exhaustive = Some(true);
}
