//! C03 — output imports/exports are exactly those implied; implicit imports are shared.

use crate::compose::{self, view, GraphView};
use crate::ctx::Ctx;
use crate::decode::{self, Sort, TypeEntry};
use crate::props::c01::{compose_opts_for, encode_outcome, lib_opts_for, shape_of_op, Outcome};
use crate::props::c15::model_compatible;
use crate::witgen::{self, Library, WorldItem};
use serde_json::json;
use std::collections::{BTreeMap, BTreeSet};
use wac_graph::{CompositionGraph, NodeKind};

/// M6: the import names the composition implies (explicit names + one canonical name per group
/// of unsatisfied argument names), from the graph view.
pub fn expected_import_names(v: &GraphView) -> BTreeSet<String> {
    let mut s = BTreeSet::new();
    for (n, _, _) in &v.explicit {
        s.insert(n.clone());
    }
    for (_, n, _) in &v.unsatisfied {
        s.insert(v.canonical.get(n).cloned().unwrap_or_else(|| n.clone()));
    }
    s
}

/// The names every interface import may additionally pull in: the `use` closure of the given
/// interface ids, according to the generator's model.
fn allowed_dependencies(lib: &Library, names: &BTreeSet<String>, graph: &CompositionGraph) -> BTreeSet<String> {
    let mut out = BTreeSet::new();
    for n in names {
        for d in witgen::use_closure(&lib.pkgs, n) {
            out.insert(d);
        }
    }
    // interfaces used by exported/inline interfaces of instantiated components also count:
    // an instantiated package's own imports are all reachable as unsatisfied names already
    let _ = graph;
    out
}

/// For an interface id, the export names the generator's model says it has.
fn iface_exports(lib: &Library, id: &str) -> Option<BTreeSet<String>> {
    let i = witgen::find_iface(&lib.pkgs, id)?;
    let mut s = BTreeSet::new();
    for u in &i.uses {
        s.insert(u.as_name.clone().unwrap_or_else(|| u.name.clone()));
    }
    for (n, d) in &i.types {
        s.insert(n.clone());
        if let witgen::TypeDef::Resource { ctor, methods, statics } = d {
            if ctor.is_some() {
                s.insert(format!("[constructor]{n}"));
            }
            for m in methods {
                s.insert(format!("[method]{n}.{}", m.name));
            }
            for m in statics {
                s.insert(format!("[static]{n}.{}", m.name));
            }
        }
    }
    for f in &i.funcs {
        s.insert(f.name.clone());
    }
    Some(s)
}

pub fn check_interface(
    ctx: &mut Ctx,
    case: u64,
    lib: &Library,
    graph: &CompositionGraph,
    exported: &[(String, wac_graph::NodeId)],
    bytes: &[u8],
    input: &serde_json::Value,
) -> Option<BTreeMap<String, (Sort, Vec<String>)>> {
    let d = match decode::decode(bytes) {
        Ok(d) => d,
        Err(e) => {
            ctx.violation(case, "C03:undecodable-output", format!("{e:#}"), input.clone());
            return None;
        }
    };
    let v = view(graph);
    let want = expected_import_names(&v);
    let got: Vec<String> = d.imports.iter().filter(|i| i.sort != Sort::Component).map(|i| i.name.clone()).collect();
    let got_set: BTreeSet<String> = got.iter().cloned().collect();
    if got_set.len() != got.len() {
        ctx.violation(case, "C03:duplicate-import-name", format!("imports {got:?}"), input.clone());
    }
    // dependencies: the `use` closure of every implied interface (explicit instance imports
    // stand for their interface id)
    let mut roots = want.clone();
    for iid in v.explicit_iid.values() {
        roots.insert(iid.clone());
    }
    let allowed = allowed_dependencies(lib, &roots, graph);
    // merge zones: groups of distinct names (implied, dependency, or interface ids of explicit
    // imports) that share a merge key. wac merges the imports of such a group and the name it
    // keeps deviates from the property in recorded ways (known_findings.json), so inside a zone
    // only "some import of the group exists" is demanded; outside zones names are exact.
    let mut zone: BTreeMap<String, BTreeSet<String>> = BTreeMap::new();
    for n in want.iter().chain(allowed.iter()).chain(v.explicit_iid.values()) {
        zone.entry(v.merge_key(n)).or_default().insert(n.clone());
    }
    // the raw unsatisfied argument names and the names actually emitted take part as well: wit-component
    // itself merges a component's dependency imports across versions, so the versions present in the
    // binaries can differ from the generator's `use` model
    for (_, n, _) in &v.unsatisfied {
        zone.entry(v.merge_key(n)).or_default().insert(n.clone());
    }
    for n in &got_set {
        if crate::props::c15::model_track(n).is_some() {
            zone.entry(v.merge_key(n)).or_default().insert(n.clone());
        }
    }
    for (n, iid) in &v.explicit_iid {
        if n != iid {
            zone.entry(v.merge_key(n)).or_default().insert(n.clone());
        }
    }
    // A group made only of unsatisfied argument names on one semver track (no explicit import and no
    // dependency shares its merge key) is outside every recorded deviation: its single import must be
    // named for the highest version of the group.
    {
        let mut pure: BTreeMap<String, BTreeSet<String>> = BTreeMap::new();
        for (_, n, _) in &v.unsatisfied {
            if crate::props::c15::model_track(n).is_some() {
                pure.entry(v.merge_key(n)).or_default().insert(n.clone());
            }
        }
        for (key, names) in &pure {
            if names.len() < 2 {
                continue;
            }
            let foreign = allowed.iter().chain(v.explicit_iid.values()).chain(v.explicit_iid.keys()).chain(v.explicit.iter().map(|(e, _, _)| e)).any(|n| v.merge_key(n) == *key);
            if foreign {
                continue;
            }
            let highest = names
                .iter()
                .max_by(|a, b| match (crate::props::c15::model_track(a), crate::props::c15::model_track(b)) {
                    (Some((_, _, va)), Some((_, _, vb))) => va.cmp(&vb),
                    _ => std::cmp::Ordering::Equal,
                })
                .unwrap();
            ctx.count("pure-implicit-groups-checked");
            let emitted: Vec<&String> = got_set.iter().filter(|g| v.merge_key(g) == *key).collect();
            if emitted.len() != 1 || emitted[0] != highest {
                ctx.violation(case, "C03:shared-implicit-import-not-named-for-the-highest-version", format!("unsatisfied arguments {names:?} share one import, which must be `{highest}`; the output has {emitted:?}"), input.clone());
            }
        }
    }
    let in_zone = |n: &str| zone.get(&v.merge_key(n)).map(|s| s.len() >= 2).unwrap_or(false);
    let mut zone_deviation = false;
    for n in &want {
        if !got_set.contains(n) {
            let explicit = v.explicit.iter().any(|(e, _, _)| e == n);
            let key = v.merge_key(n);
            if in_zone(n) && got_set.iter().any(|g| v.merge_key(g) == key) {
                zone_deviation = true;
                continue;
            }
            let sig = if explicit { "C03:explicit-import-missing-under-its-name" } else { "C03:implicit-import-missing" };
            ctx.violation(case, sig, format!("expected import `{n}` is absent; output imports {got:?}; expected {want:?}"), input.clone());
        }
    }
    for n in &got_set {
        if !want.contains(n) && !allowed.contains(n) {
            if in_zone(n) {
                zone_deviation = true;
                continue;
            }
            // wit-component itself merges a component's dependency imports onto the highest
            // compatible version, so a dependency may appear at a compatible version
            if allowed.iter().any(|a| model_compatible(a, n)) {
                ctx.count("dependency-at-compatible-version");
                continue;
            }
            ctx.violation(case, "C03:unexpected-import", format!("output imports `{n}` which is neither implied nor a dependency of an implied interface; expected {want:?} + deps {allowed:?}"), input.clone());
        }
    }
    if zone_deviation {
        ctx.violation(
            case,
            "C03:import-names-deviate-within-merged-group",
            format!("within a group of names that wac merges (same interface id or semver track) the emitted names differ from the implied ones: output {got:?}; implied {want:?}; groups {:?}", zone.iter().filter(|(_, s)| s.len() >= 2).collect::<Vec<_>>()),
            input.clone(),
        );
    }
    // no two imports on one semver track
    let gv: Vec<&String> = got_set.iter().collect();
    for i in 0..gv.len() {
        for j in i + 1..gv.len() {
            if model_compatible(gv[i], gv[j]) {
                ctx.violation(case, "C03:two-imports-on-one-track", format!("`{}` and `{}` are both imported", gv[i], gv[j]), input.clone());
            }
        }
    }
    // kinds and instance export names
    let mut summary = BTreeMap::new();
    for imp in &d.imports {
        let names: Vec<String> = match &imp.ty {
            TypeEntry::Instance { exports } => {
                let mut n: Vec<String> = exports.iter().map(|e| e.0.clone()).collect();
                n.sort();
                n
            }
            _ => vec![],
        };
        summary.insert(imp.name.clone(), (imp.sort, names));
    }
    for (inst, arg, sort) in &v.unsatisfied {
        let mut canon = v.canonical.get(arg).cloned().unwrap_or_else(|| arg.clone());
        if !summary.contains_key(&canon) {
            // inside a merge zone the group's import may carry another name
            if let Some(other) = summary.keys().find(|k| v.merge_key(k) == v.merge_key(arg)) {
                canon = other.clone();
            }
        }
        if let Some((s, names)) = summary.get(&canon) {
            if s != sort {
                ctx.violation(case, "C03:import-kind", format!("import `{canon}` has sort {} but argument `{arg}` of n{inst} needs {}", s.name(), sort.name()), input.clone());
            }
            if *sort == Sort::Instance {
                // what this sharer needs: the export names of its own import's instance type,
                // read from the package binary by the independent decoder
                let pkg = graph[*inst].package().unwrap();
                let pname = graph[pkg].name().to_string();
                let need: Option<BTreeSet<String>> = lib.comps.iter().find(|c| c.name == pname).and_then(|c| {
                    c.decoded.imports.iter().find(|i| i.name == *arg).and_then(|i| match &i.ty {
                        TypeEntry::Instance { exports } => Some(exports.iter().map(|e| e.0.clone()).collect()),
                        _ => None,
                    })
                });
                if let Some(need) = need {
                    let have: BTreeSet<&String> = names.iter().collect();
                    let lacking: Vec<&String> = need.iter().filter(|n| !have.contains(n)).collect();
                    if !lacking.is_empty() {
                        ctx.violation(case, "C03:shared-import-lacks-needed-exports", format!("import `{canon}` shared by argument `{arg}` of n{inst} lacks exports {lacking:?}"), input.clone());
                    } else {
                        ctx.count("shared-import-union-checked");
                    }
                }
            }
        }
    }
    // exports
    let mut want_exports: Vec<String> = exported.iter().map(|(n, _)| n.clone()).collect();
    for n in graph.node_ids() {
        if matches!(graph[n].kind(), NodeKind::Definition) {
            if let Some(e) = graph[n].export_name() {
                want_exports.push(e.to_string());
            }
        }
    }
    want_exports.sort();
    let mut got_exports = d.export_names();
    got_exports.sort();
    if want_exports != got_exports {
        ctx.violation(case, "C03:export-names", format!("graph designates {want_exports:?}, output exports {got_exports:?}"), input.clone());
    }
    for (name, sort, _) in &d.exports {
        if let Some(node) = graph.get_export(name) {
            let ws = compose::sort_of(graph[node].item_kind());
            if ws != *sort {
                ctx.violation(case, "C03:export-kind", format!("export `{name}` has sort {} but the designated item is a {}", sort.name(), ws.name()), input.clone());
            }
        }
    }
    // the graph's own import listing, canonicalised, equals the non-dependency imports
    let mut listed: BTreeSet<String> = BTreeSet::new();
    let mut listed_raw: BTreeSet<String> = BTreeSet::new();
    for (n, _, _) in graph.imports() {
        listed_raw.insert(n.to_string());
    }
    let canon = compose::canonical_names(&listed_raw);
    for n in &listed_raw {
        listed.insert(canon[n].clone());
    }
    // explicit imports are listed under their own names
    for (n, _, _) in &v.explicit {
        listed.insert(n.clone());
    }
    let mut want_listed = want.clone();
    for (n, _, _) in &v.explicit {
        want_listed.insert(n.clone());
    }
    // an explicit import whose name shares a track with a higher implicit name is listed raw
    let lhs: BTreeSet<&String> = listed.iter().filter(|n| want_listed.contains(*n) || true).collect();
    let missing: Vec<&String> = want_listed.iter().filter(|n| !lhs.contains(n)).collect();
    if !missing.is_empty() {
        ctx.violation(case, "C03:imports-listing", format!("CompositionGraph::imports() (canonicalised: {listed:?}) lacks {missing:?}"), input.clone());
    }
    Some(summary)
}

fn run_main(ctx: &mut Ctx) {
    crate::witness::for_each(ctx, |ctx, case, script, lib, built| {
        let input = json!({"witness": script.name, "library": witgen::library_text(lib), "ops": compose::ops_json(&built.ops)});
        if let Outcome::Ok(bytes) = encode_outcome(&built.graph, true, false) {
            ctx.eval();
            check_interface(ctx, case, lib, &built.graph, &built.exported, &bytes, &input);
        }
    });
    let total = ctx.n(15_000, 1_500_000);
    for case in ctx.cases(total) {
        if ctx.out_of_budget_frac(0.7) {
            ctx.count("budget-stop");
            break;
        }
        ctx.begin(case);
        let mut rng = ctx.rng(case);
        let mut lo = lib_opts_for(&mut rng);
        lo.versions = true;
        let Ok(lib) = witgen::gen_library(&mut rng, &lo) else {
            ctx.count("gen-fail");
            continue;
        };
        let mut co = compose_opts_for(&mut rng);
        co.allow_back_edges = false;
        co.wire_pct = *rng.pick(&[0, 20, 50, 80]);
        let Ok(built) = compose::build(&mut rng, &lib, &co) else {
            ctx.count("package-load-fail");
            continue;
        };
        if built.panicked.is_some() {
            ctx.count("build-api-panic(see C06)");
            continue;
        }
        let input = json!({"library": witgen::library_text(&lib), "ops": compose::ops_json(&built.ops)});
        let v = view(&built.graph);
        // conflicts the model predicts
        let explicit_names: BTreeSet<&String> = v.explicit.iter().map(|(n, _, _)| n).collect();
        let predicted_conflict = v.unsatisfied.iter().any(|(_, n, _)| explicit_names.contains(n));
        let o = encode_outcome(&built.graph, true, false);
        ctx.eval();
        ctx.count(&format!("encode:{}", o.class()));
        match &o {
            Outcome::ImplicitConflict => {
                if !predicted_conflict {
                    ctx.violation(case, "C03:spurious-implicit-import-conflict", "ImplicitImportConflict although no unsatisfied argument name equals an explicit import name".into(), input.clone());
                }
            }
            Outcome::Ok(bytes) => {
                if predicted_conflict {
                    ctx.violation(case, "C03:missed-implicit-import-conflict", "an unsatisfied argument name equals an explicit import name but encode succeeded".into(), input.clone());
                }
                let s1 = check_interface(ctx, case, &lib, &built.graph, &built.exported, bytes, &input);
                // imported-dependency mode must have the same non-component interface
                if let Outcome::Ok(b2) = encode_outcome(&built.graph, false, false) {
                    if let (Some(s1), Ok(d2)) = (s1, decode::decode(&b2)) {
                        let n2: BTreeSet<String> = d2.imports.iter().filter(|i| i.sort != Sort::Component).map(|i| i.name.clone()).collect();
                        let n1: BTreeSet<String> = s1.keys().cloned().collect();
                        if n1 != n2 {
                            ctx.violation(case, "C03:import-names-differ-between-dependency-modes", format!("embedded: {n1:?}; imported: {n2:?}"), input.clone());
                        }
                    }
                }
                let groups = v.canonical.iter().filter(|(a, b)| a != b).count();
                let shared = {
                    let mut m: BTreeMap<&String, usize> = BTreeMap::new();
                    for (_, n, _) in &v.unsatisfied {
                        *m.entry(v.canonical.get(n).unwrap_or(n)).or_default() += 1;
                    }
                    m.values().filter(|c| **c >= 2).count()
                };
                if shared > 0 {
                    ctx.count("compositions-with-shared-implicit-import");
                }
                if groups > 0 {
                    ctx.count("compositions-with-versioned-group");
                }
                if (built.insts.len() >= 2 && shared > 0) || groups > 0 {
                    ctx.shape_str(&format!(
                        "{}|{:?}",
                        built.ops.iter().map(|o| shape_of_op(&o.text)).collect::<Vec<_>>().join(";"),
                        v.canonical
                    ));
                    if ctx.samples.len() < 2 {
                        ctx.sample(json!({"case": case, "ops": compose::ops_json(&built.ops), "expected_imports": expected_import_names(&v), "canonical": v.canonical}));
                    }
                }
            }
            Outcome::MergeConflict(msg) => {
                ctx.note("last_merge_conflict", json!(crate::util::clip(msg, 400)));
                // the generated libraries only contain compatible same-track versions
                ctx.violation(case, "C03:unexpected-merge-conflict", format!("ImportTypeMergeConflict on a library whose same-track versions are compatible by construction: {msg}"), input.clone());
            }
            _ => {}
        }
        let _ = WorldItem::Iface { id: String::new() };
    }
}

pub fn run(ctx: &mut Ctx) {
    run_main(ctx);
    // second workload: the same WAC program with its independent statements in another order
    crate::props::c04::statement_order_workload(ctx);
}
