//! C02 — encoded wiring is exactly the composition graph.
//!
//! Monitor: the independent decoder D1 turns the output into provenance terms; the same terms
//! are computed from public graph queries; they must agree up to renumbering.

use crate::compose::{self, node_term, sort_of, view};
use crate::ctx::Ctx;
use crate::decode::{self, Sort, Term};
use crate::props::c01::{compose_opts_for, encode_outcome, lib_opts_for, shape_of_op, Outcome};
use crate::util::sha256_hex;
use crate::witgen;
use serde_json::json;
use std::collections::BTreeMap;
use wac_graph::{CompositionGraph, NodeId, NodeKind};

pub struct Expect<'a> {
    pub graph: &'a CompositionGraph,
    pub exported: &'a [(String, NodeId)],
}

/// Compares one encoding with the graph. Returns a list of (signature suffix, detail).
pub fn compare(e: &Expect, bytes: &[u8], define: bool) -> Vec<(String, String)> {
    let mut out = Vec::new();
    let d = match decode::decode(bytes) {
        Ok(d) => d,
        Err(err) => {
            out.push(("undecodable-output".into(), format!("independent decoder failed: {err:#}")));
            return out;
        }
    };
    let g = e.graph;
    let v = view(g);
    let mut memo = BTreeMap::new();
    let mut only_merging = false;

    // (1) instantiations as a multiset of terms
    let want_terms: Vec<Term> = g
        .node_ids()
        .filter(|n| matches!(g[*n].kind(), NodeKind::Instantiation(_)))
        .map(|n| node_term(g, &v, n, define, &mut memo, 0))
        .collect();
    let mut want: Vec<String> = want_terms.iter().map(|t| t.render()).collect();
    let mut got: Vec<String> = d.instantiations.iter().map(|t| t.render()).collect();
    want.sort();
    got.sort();
    if want != got {
        let missing: Vec<&String> = want.iter().filter(|w| !got.contains(w)).collect();
        let extra: Vec<&String> = got.iter().filter(|w| !want.contains(w)).collect();
        // does the difference vanish when import *merging* is ignored?
        let mut nw: Vec<String> = want_terms.iter().map(|t| v.normalize(t).render()).collect();
        let mut ng: Vec<String> = d.instantiations.iter().map(|t| v.normalize(t).render()).collect();
        nw.sort();
        ng.sort();
        let kind = if nw == ng {
            only_merging = true;
            "wiring-differs-only-by-merged-import-names"
        } else if want.len() != got.len() {
            "instantiation-count"
        } else {
            "instantiation-wiring"
        };
        out.push((
            kind.into(),
            format!(
                "instantiations differ (define_components={define}): expected-but-absent {missing:?}; present-but-unexpected {extra:?}"
            ),
        ));
    }

    // (2) exports
    let defs: Vec<String> = g
        .node_ids()
        .filter(|n| matches!(g[*n].kind(), NodeKind::Definition))
        .filter_map(|n| g[n].export_name().map(|s| s.to_string()))
        .collect();
    let mut want_names: Vec<String> = e.exported.iter().map(|(n, _)| n.clone()).collect();
    want_names.extend(defs.iter().cloned());
    let mut got_names = d.export_names();
    want_names.sort();
    got_names.sort();
    if want_names != got_names {
        out.push((
            "export-names".into(),
            format!("export names differ: graph {want_names:?} vs output {got_names:?}"),
        ));
    }
    for (name, sort, term) in &d.exports {
        if defs.contains(name) {
            continue;
        }
        match g.get_export(name) {
            None => out.push(("export-unknown".into(), format!("output exports `{name}` which the graph does not"))),
            Some(node) => {
                let wt = node_term(g, &v, node, define, &mut memo, 0);
                let ws = sort_of(g[node].item_kind());
                if wt != *term || ws != *sort {
                    if ws == *sort && v.normalize(&wt) == v.normalize(term) {
                        // same root cause as the instantiation difference reported above
                        if !only_merging {
                            out.push(("wiring-differs-only-by-merged-import-names".into(), format!("export `{name}`: {} vs {}", term.render(), wt.render())));
                            only_merging = true;
                        }
                        continue;
                    }
                    out.push((
                        "export-binding".into(),
                        format!(
                            "export `{name}` is bound to {} {} but the graph designates {} {}",
                            sort.name(),
                            term.render(),
                            ws.name(),
                            wt.render()
                        ),
                    ));
                }
            }
        }
    }
    for (name, node) in e.exported {
        if g.get_export(name) != Some(*node) {
            out.push(("get-export".into(), format!("get_export({name:?}) is not the node that was exported under it")));
        }
    }

    // (3) dependencies: embedded once each / imported once each
    let mut used_pkgs: Vec<wac_graph::PackageId> = g
        .node_ids()
        .filter(|n| matches!(g[*n].kind(), NodeKind::Instantiation(_)))
        .filter_map(|n| g[n].package())
        .collect();
    used_pkgs.sort();
    used_pkgs.dedup();
    if define {
        let mut want: Vec<String> = used_pkgs.iter().map(|p| sha256_hex(g[*p].bytes())).collect();
        let mut got = d.embedded.clone();
        want.sort();
        got.sort();
        if want != got {
            out.push((
                "embedded-components".into(),
                format!("embedded component digests differ: expected {} (one per instantiated package), output has {}; expected {want:?} got {got:?}", want.len(), got.len()),
            ));
        }
        if d.imports.iter().any(|i| i.sort == Sort::Component) {
            out.push(("embedded-mode-imports-component".into(), "a component is imported although dependencies are to be embedded".into()));
        }
    } else {
        let mut want: Vec<String> = used_pkgs.iter().map(|p| compose::package_import_name(&g[*p])).collect();
        let mut got: Vec<String> = d.imports.iter().filter(|i| i.sort == Sort::Component).map(|i| i.name.clone()).collect();
        want.sort();
        got.sort();
        if want != got {
            out.push(("imported-components".into(), format!("component imports differ: expected {want:?} got {got:?}")));
        }
        if !d.embedded.is_empty() {
            out.push(("import-mode-embeds-component".into(), "a component is embedded although dependencies are to be imported".into()));
        }
    }

    // (4) name section
    let mut want_names: Vec<(Sort, String, String)> = Vec::new();
    let mut want_names_norm: Vec<(Sort, String, String)> = Vec::new();
    let mut got_names_norm: Vec<(Sort, String, String)> = Vec::new();
    for n in g.node_ids() {
        if let Some(name) = g[n].name() {
            let t = node_term(g, &v, n, define, &mut memo, 0);
            want_names.push((sort_of(g[n].item_kind()), name.to_string(), t.render()));
            want_names_norm.push((sort_of(g[n].item_kind()), name.to_string(), v.normalize(&t).render()));
        }
    }
    let mut got_names: Vec<(Sort, String, String)> = Vec::new();
    for (sort, entries) in &d.names {
        for (idx, name) in entries {
            match d.term(*sort, *idx) {
                Ok(t) => {
                    got_names.push((*sort, name.clone(), t.render()));
                    got_names_norm.push((*sort, name.clone(), v.normalize(t).render()));
                }
                Err(_) => out.push(("name-index-out-of-range".into(), format!("name `{name}` refers to {} index {idx} which does not exist", sort.name()))),
            }
        }
    }
    // definitions have no comparable term; compare only their presence
    let strip = |v: &mut Vec<(Sort, String, String)>| {
        for e in v.iter_mut() {
            if e.0 == Sort::Type {
                e.2 = String::new();
            }
        }
        v.sort();
    };
    strip(&mut want_names);
    strip(&mut got_names);
    strip(&mut want_names_norm);
    strip(&mut got_names_norm);
    if want_names != got_names && want_names_norm == got_names_norm {
        if !only_merging {
            out.push(("wiring-differs-only-by-merged-import-names".into(), "name section entries differ only by merged import names".into()));
        }
    } else if want_names != got_names {
        let missing: Vec<_> = want_names.iter().filter(|w| !got_names.contains(w)).collect();
        let extra: Vec<_> = got_names.iter().filter(|w| !want_names.contains(w)).collect();
        out.push(("name-section".into(), format!("name section differs: expected-but-absent {missing:?}; unexpected {extra:?}")));
    }
    let _ = Term::TypeDef(0);
    out
}

pub fn run(ctx: &mut Ctx) {
    crate::witness::for_each(ctx, |ctx, case, script, lib, built| {
        let input = json!({"witness": script.name, "library": witgen::library_text(lib), "ops": compose::ops_json(&built.ops)});
        let e = Expect { graph: &built.graph, exported: &built.exported };
        for define in [true, false] {
            if let Outcome::Ok(bytes) = encode_outcome(&built.graph, define, false) {
                ctx.eval();
                for (sig, detail) in compare(&e, &bytes, define) {
                    ctx.violation(case, &format!("C02:{sig}"), detail, input.clone());
                }
            }
        }
    });
    let total = ctx.n(20_000, 2_000_000);
    for case in ctx.cases(total) {
        if ctx.out_of_budget() {
            ctx.count("budget-stop");
            break;
        }
        ctx.begin(case);
        let mut rng = ctx.rng(case);
        let mut lo = lib_opts_for(&mut rng);
        // bias to what validity cannot see: several instances of few packages, many equal-typed items
        lo.n_comps = rng.range(2, 3);
        let Ok(lib) = witgen::gen_library(&mut rng, &lo) else {
            ctx.count("gen-fail");
            continue;
        };
        let mut co = compose_opts_for(&mut rng);
        co.allow_back_edges = false;
        co.max_insts = rng.range(2, 6);
        co.wire_pct = *rng.pick(&[60, 90, 100]);
        let Ok(built) = compose::build(&mut rng, &lib, &co) else {
            ctx.count("package-load-fail");
            continue;
        };
        if built.panicked.is_some() {
            ctx.count("build-api-panic(see C06)");
            continue;
        }
        let input = json!({"library": witgen::library_text(&lib), "ops": compose::ops_json(&built.ops)});
        let e = Expect { graph: &built.graph, exported: &built.exported };
        let mut any_ok = false;
        for define in [true, false] {
            match encode_outcome(&built.graph, define, false) {
                Outcome::Ok(bytes) => {
                    ctx.eval();
                    any_ok = true;
                    ctx.count("decoded-outputs");
                    for (sig, detail) in compare(&e, &bytes, define) {
                        ctx.violation(case, &format!("C02:{sig}"), detail, input.clone());
                    }
                }
                o => ctx.count(&format!("encode:{}", o.class())),
            }
        }
        if any_ok {
            ctx.add("instantiations-compared", built.insts.len() as u64);
            ctx.add("exports-compared", built.exported.len() as u64);
            ctx.add("names-compared", built.n_names as u64);
            ctx.add("arg-edges", built.n_arg_edges as u64);
            if built.insts.len() >= 2 && built.n_arg_edges >= 1 && !built.exported.is_empty() {
                ctx.shape_str(&built.ops.iter().map(|o| shape_of_op(&o.text)).collect::<Vec<_>>().join(";"));
                if ctx.samples.len() < 2 {
                    let v = view(&built.graph);
                    let mut memo = BTreeMap::new();
                    let terms: Vec<String> = built.insts.iter().map(|n| node_term(&built.graph, &v, *n, true, &mut memo, 0).render()).collect();
                    ctx.sample(json!({"case": case, "ops": compose::ops_json(&built.ops), "instantiation_terms": terms}));
                }
            }
        }
    }
}
