//! C09 — merged import requirements satisfy every contributor, order-independently.
//!
//! Monitor: algebraic laws on `TypeAggregator` (upper bound for every contributor, union of
//! instance exports, idempotence, permutation independence, canonical = highest version with
//! redirects) and a conflict model that predicts exactly when aggregation must fail.

use crate::ctx::Ctx;
use crate::props::c15::{model_compatible, model_track};
use crate::util::{catch, normalize_msg, Rng};
use serde_json::json;
use std::collections::{BTreeMap, BTreeSet, HashSet};
use wac_types::{DefinedType, ItemKind, Package, SubtypeChecker, Type, TypeAggregator, Types, ValueType};

/// One requirement: an import name with a shaped item, decoded into its own type collection.
#[derive(Clone, Debug)]
struct Req {
    name: String,
    /// for instance requirements: function name -> signature variant
    funcs: BTreeMap<String, usize>,
    /// "instance" | "func" | "resource" | "value-in-instance"
    kind: &'static str,
    variant: usize,
}

const SIGS: [&str; 3] = ["(func)", "(func (param \"x\" u8) (result string))", "(func (param \"x\" string))"];

fn req_wat(r: &Req) -> String {
    match r.kind {
        "func" => SIGS[r.variant % SIGS.len()].to_string(),
        "resource" => "(type (sub resource))".to_string(),
        _ => {
            let mut s = String::from("(instance");
            for (f, v) in &r.funcs {
                s.push_str(&format!(" (export \"{f}\" {})", SIGS[*v % SIGS.len()]));
            }
            s.push(')');
            s
        }
    }
}

struct Decoded {
    types: Types,
    kind: ItemKind,
}

fn decode_req(r: &Req) -> Result<Decoded, String> {
    let wat = format!("(component (import \"{}\" {}))", r.name, req_wat(r));
    let bytes = wat::parse_str(&wat).map_err(|e| format!("harness wat: {e}"))?;
    let mut types = Types::default();
    let pkg = Package::from_bytes("test:req", None, bytes, &mut types).map_err(|e| format!("{e:#}"))?;
    let kind = *types[pkg.ty()].imports.get(&r.name).ok_or("import missing")?;
    Ok(Decoded { types, kind })
}

fn render_value(types: &Types, vt: ValueType) -> String {
    match vt {
        ValueType::Primitive(p) => p.desc().to_string(),
        ValueType::Own(_) => "own".into(),
        ValueType::Borrow(_) => "borrow".into(),
        ValueType::Defined(id) => match &types[id] {
            DefinedType::Alias(t) => render_value(types, *t),
            other => other.desc(types).to_string(),
        },
    }
}

/// Structural rendering of an item kind, export order ignored.
fn render_kind(types: &Types, k: ItemKind) -> String {
    match k {
        ItemKind::Func(id) => {
            let f = &types[id];
            format!(
                "func({})->{}",
                f.params.iter().map(|(n, t)| format!("{n}:{}", render_value(types, *t))).collect::<Vec<_>>().join(","),
                f.result.map(|t| render_value(types, t)).unwrap_or_default()
            )
        }
        ItemKind::Instance(id) => {
            let mut ex: Vec<String> = types[id].exports.iter().map(|(n, k)| format!("{n}={}", render_kind(types, *k))).collect();
            ex.sort();
            format!("instance{{{}}}", ex.join(";"))
        }
        ItemKind::Type(Type::Resource(_)) => "resource".into(),
        ItemKind::Type(Type::Value(v)) => format!("type:{}", render_value(types, v)),
        other => other.desc(types).to_string(),
    }
}

/// Groups requirement names: equal names or one semver track.
fn group_key(name: &str) -> String {
    match model_track(name) {
        Some((base, track, _)) => format!("{base}@{track:?}"),
        None => name.to_string(),
    }
}

/// The conflict model: aggregation must fail iff two requirements of one group disagree on the
/// kind, on a plain function's signature, or on the signature of a same-named instance export.
fn model_conflict(reqs: &[Req]) -> bool {
    for (i, a) in reqs.iter().enumerate() {
        for b in &reqs[i + 1..] {
            if group_key(&a.name) != group_key(&b.name) {
                continue;
            }
            if a.kind != b.kind {
                return true;
            }
            match a.kind {
                "func" => {
                    if a.variant % SIGS.len() != b.variant % SIGS.len() {
                        return true;
                    }
                }
                "instance" => {
                    for (f, v) in &a.funcs {
                        if let Some(w) = b.funcs.get(f) {
                            if v % SIGS.len() != w % SIGS.len() {
                                return true;
                            }
                        }
                    }
                }
                _ => {}
            }
        }
    }
    false
}

/// For C15: aggregates two empty instance requirements named `a` then `b` and returns the
/// import names that remain (None when a name is not a valid import name).
pub(crate) fn aggregate_pair(a: &str, b: &str) -> Option<Result<Vec<String>, String>> {
    let reqs: Vec<Req> = [a, b].iter().map(|n| Req { name: n.to_string(), funcs: BTreeMap::new(), kind: "instance", variant: 0 }).collect();
    let decoded: Vec<Decoded> = reqs.iter().map(decode_req).collect::<Result<Vec<_>, _>>().ok()?;
    Some(aggregate_all(&[0, 1], &decoded, &reqs).map(|agg| agg.imports().map(|(n, _)| n.to_string()).collect()))
}

fn aggregate_all(order: &[usize], decoded: &[Decoded], reqs: &[Req]) -> Result<TypeAggregator, String> {
    let mut agg = TypeAggregator::default();
    let mut cache = HashSet::new();
    let mut checker = SubtypeChecker::new(&mut cache);
    for i in order {
        agg = agg.aggregate(&reqs[*i].name, &decoded[*i].types, decoded[*i].kind, &mut checker).map_err(|e| format!("{e:#}"))?;
    }
    Ok(agg)
}

fn summary(agg: &TypeAggregator) -> BTreeMap<String, String> {
    agg.imports().map(|(n, k)| (n.to_string(), render_kind(agg.types(), k))).collect()
}

fn gen_reqs(rng: &mut Rng) -> Vec<Req> {
    let n = rng.range(2, 5);
    let names = [
        "ns:lib/i0@1.0.0", "ns:lib/i0@1.1.0", "ns:lib/i0@1.2.5", "ns:lib/i0@2.0.0", "ns:lib/i0@0.3.1", "ns:lib/i0@0.3.2", "ns:lib/i0@1.10.0", "ns:lib/i0@0.3.10",
        "ns:lib/i0@0.0.1", "ns:lib/i0@0.0.2", "ns:lib/i0@1.0.0-rc.1", "ns:lib/i0", "ns:lib/i1@1.0.0", "plain-name", "other-name",
        // other tracks whose key starts with the digits of a track above (1 / 10 / 12, 0.3 / 0.31)
        "ns:lib/i0@10.0.0", "ns:lib/i0@12.1.0", "ns:lib/i0@0.31.0",
    ];
    let pool = ["f0", "f1", "f2", "f3", "f4"];
    // per-case base signature of every function; a conflicting contributor deviates from it
    let base: Vec<usize> = (0..pool.len()).map(|_| rng.below(3)).collect();
    let conflict_case = rng.chance(1, 4);
    let mut reqs = Vec::new();
    // bias: most requirements share one track so that merging really happens
    let main = *rng.pick(&names);
    for _ in 0..n {
        let name = if rng.chance(1, 2) { main.to_string() } else { rng.pick(&names).to_string() };
        let kind = if name.contains(':') { "instance" } else { *rng.pick(&["func", "func", "resource", "instance"]) };
        let mut funcs = BTreeMap::new();
        for (i, f) in pool.iter().enumerate() {
            if rng.chance(1, 2) {
                let v = if conflict_case && rng.chance(1, 5) { base[i] + 1 } else { base[i] };
                funcs.insert(f.to_string(), v);
            }
        }
        let variant = if conflict_case && rng.chance(1, 3) { base[0] + 1 } else { base[0] };
        reqs.push(Req { name, funcs, kind, variant });
    }
    reqs
}

fn check_case(ctx: &mut Ctx, case: u64, rng: &mut Rng, reqs: &[Req]) {
    let input = json!({"requirements": reqs.iter().map(|r| json!({"name": r.name, "item": req_wat(r)})).collect::<Vec<_>>()});
    let decoded: Vec<Decoded> = match reqs.iter().map(decode_req).collect::<Result<Vec<_>, _>>() {
        Ok(d) => d,
        Err(e) => {
            ctx.count("harness:requirement-rejected");
            ctx.note("last_requirement_error", json!(e));
            return;
        }
    };
    let n = reqs.len();
    let identity: Vec<usize> = (0..n).collect();
    let want_conflict = model_conflict(reqs);
    ctx.eval();
    let first = match catch(|| aggregate_all(&identity, &decoded, reqs)) {
        Ok(r) => r,
        Err(p) => {
            ctx.violation(case, &format!("C09:aggregate-panic:{}", normalize_msg(&p.message)), p.to_string(), input);
            return;
        }
    };
    ctx.count(if first.is_ok() { "aggregate:ok" } else { "aggregate:conflict" });
    if first.is_ok() == want_conflict {
        let sig = if want_conflict { "C09:conflict-accepted" } else { "C09:spurious-conflict" };
        ctx.violation(case, sig, format!("aggregate -> {:?}, the conflict model says conflict={want_conflict}", first.as_ref().map(|_| "ok").map_err(|e| e.clone())), input.clone());
    }
    // every permutation gives the same verdict and the same structure
    let mut perms: Vec<Vec<usize>> = Vec::new();
    if n <= 4 {
        let mut p = identity.clone();
        permute(&mut p, 0, &mut perms);
    } else {
        for _ in 0..24 {
            let mut p = identity.clone();
            rng.shuffle(&mut p);
            perms.push(p);
        }
    }
    let base_summary = first.as_ref().ok().map(summary);
    for p in &perms {
        ctx.eval();
        let r = match catch(|| aggregate_all(p, &decoded, reqs)) {
            Ok(r) => r,
            Err(pn) => {
                ctx.violation(case, &format!("C09:aggregate-panic:{}", normalize_msg(&pn.message)), format!("order {p:?}: {pn}"), input.clone());
                continue;
            }
        };
        if r.is_ok() != first.is_ok() {
            ctx.violation(case, "C09:verdict-depends-on-order", format!("order {identity:?} -> ok={}, order {p:?} -> ok={}", first.is_ok(), r.is_ok()), input.clone());
            continue;
        }
        if let (Ok(agg), Some(b)) = (&r, &base_summary) {
            let s = summary(agg);
            if s != *b {
                ctx.violation(case, "C09:result-depends-on-order", format!("order {identity:?} -> {b:?}; order {p:?} -> {s:?}"), input.clone());
            }
            for rq in reqs {
                let c1 = agg.canonical_import_name(&rq.name).to_string();
                let c0 = first.as_ref().unwrap().canonical_import_name(&rq.name).to_string();
                if c1 != c0 {
                    ctx.violation(case, "C09:canonical-name-depends-on-order", format!("`{}`: {c0} vs {c1} (order {p:?})", rq.name), input.clone());
                }
            }
        }
        ctx.count("permutations");
    }
    let Ok(agg) = first else { return };
    let s = summary(&agg);
    // canonical name = highest version of the group, every name redirects to it
    let names: BTreeSet<String> = reqs.iter().map(|r| r.name.clone()).collect();
    for name in &names {
        ctx.eval();
        let group: Vec<&String> = names.iter().filter(|m| *m == name || model_compatible(m, name)).collect();
        let highest = group
            .iter()
            .max_by(|a, b| match (model_track(a), model_track(b)) {
                (Some((_, _, va)), Some((_, _, vb))) => va.cmp(&vb),
                _ => std::cmp::Ordering::Equal,
            })
            .unwrap();
        let canon = agg.canonical_import_name(name);
        if canon != highest.as_str() {
            ctx.violation(case, "C09:canonical-not-highest", format!("canonical name of `{name}` is `{canon}`, the highest compatible version is `{highest}`"), input.clone());
        }
        if !s.contains_key(canon) {
            ctx.violation(case, "C09:canonical-name-not-imported", format!("canonical name `{canon}` of `{name}` is not among the imports {:?}", s.keys().collect::<Vec<_>>()), input.clone());
        }
    }
    let groups: BTreeSet<String> = names.iter().map(|n| group_key(n)).collect();
    if s.len() != groups.len() {
        ctx.violation(case, "C09:import-count", format!("{} imports for {} groups: {:?}", s.len(), groups.len(), s.keys().collect::<Vec<_>>()), input.clone());
    }
    // upper bound + union
    for (i, rq) in reqs.iter().enumerate() {
        ctx.eval();
        let canon = agg.canonical_import_name(&rq.name).to_string();
        let Some((_, merged)) = agg.imports().find(|(n, _)| *n == canon) else { continue };
        let mut cache = HashSet::new();
        if let Err(e) = SubtypeChecker::new(&mut cache).is_subtype(merged, agg.types(), decoded[i].kind, &decoded[i].types) {
            ctx.violation(case, "C09:merged-type-does-not-satisfy-contributor", format!("merged `{canon}` is not a subtype of contributor {i} (`{}`): {e:#}", rq.name), input.clone());
        } else {
            ctx.count("upper-bound-checks");
        }
        if rq.kind == "instance" {
            if let ItemKind::Instance(id) = merged {
                let have: BTreeSet<&String> = agg.types()[id].exports.keys().collect();
                let union: BTreeSet<String> = reqs.iter().filter(|o| o.kind == "instance" && group_key(&o.name) == group_key(&rq.name)).flat_map(|o| o.funcs.keys().cloned()).collect();
                let want: BTreeSet<&String> = union.iter().collect();
                if have != want {
                    ctx.violation(case, "C09:instance-merge-is-not-the-union", format!("merged `{canon}` exports {have:?}, the union of the contributors is {want:?}"), input.clone());
                }
            }
        } else {
            // equal func / resource requirements merge to themselves
            let mine = render_kind(&decoded[i].types, decoded[i].kind);
            if s.get(&canon) != Some(&mine) {
                ctx.violation(case, "C09:equal-requirements-do-not-merge-to-themselves", format!("`{canon}`: merged {:?}, contributor {mine}", s.get(&canon)), input.clone());
            }
        }
    }
    // idempotence: everything twice == once
    ctx.eval();
    let twice: Vec<usize> = identity.iter().chain(identity.iter()).copied().collect();
    match catch(|| aggregate_all(&twice, &decoded, reqs)) {
        Ok(Ok(a2)) => {
            if summary(&a2) != s {
                ctx.violation(case, "C09:not-idempotent", format!("once {s:?}; twice {:?}", summary(&a2)), input.clone());
            } else {
                ctx.count("idempotence-checks");
            }
        }
        Ok(Err(e)) => ctx.violation(case, "C09:not-idempotent", format!("aggregating the same requirements a second time fails: {e}"), input.clone()),
        Err(p) => ctx.violation(case, &format!("C09:aggregate-panic:{}", normalize_msg(&p.message)), p.to_string(), input.clone()),
    }
    let merged_groups = names.len() - groups.len();
    if merged_groups > 0 || reqs.len() > names.len() {
        ctx.shape_str(&format!("{:?}", reqs.iter().map(|r| (r.name.clone(), r.kind, r.funcs.keys().cloned().collect::<Vec<_>>())).collect::<Vec<_>>()));
        if ctx.samples.len() < 2 {
            ctx.sample(json!({"case": case, "requirements": input["requirements"], "merged": s}));
        }
    }
}

fn permute(p: &mut Vec<usize>, k: usize, out: &mut Vec<Vec<usize>>) {
    if k == p.len() {
        out.push(p.clone());
        return;
    }
    for i in k..p.len() {
        p.swap(k, i);
        permute(p, k + 1, out);
        p.swap(k, i);
    }
}

/// Second workload: requirements taken from the imports of WIT-derived components (interfaces with
/// records/variants/resources and `use` of other merged interfaces, several versions on a track),
/// each decoded into its own type collection. Only the laws are checked here.
fn check_wit_case(ctx: &mut Ctx, case: u64, rng: &mut Rng) {
    use crate::witgen::{self, LibOpts};
    let mut lo = LibOpts::default();
    lo.versions = true;
    lo.n_ifaces = rng.range(2, 4);
    lo.n_comps = rng.range(2, 4);
    let Ok(lib) = witgen::gen_library(rng, &lo) else {
        ctx.count("gen-fail");
        return;
    };
    let mut contributors: Vec<(String, Types, ItemKind)> = Vec::new();
    for c in &lib.comps {
        let mut types = Types::default();
        let Ok(pkg) = Package::from_bytes(&c.name, None, c.bytes.clone(), &mut types) else { continue };
        let imports: Vec<(String, ItemKind)> = types[pkg.ty()].imports.iter().map(|(n, k)| (n.clone(), *k)).collect();
        // every import of one component shares that component's type collection; contributors from
        // different components have different collections
        for (n, k) in imports {
            contributors.push((n, types.clone(), k));
        }
    }
    if contributors.len() < 2 {
        return;
    }
    let input = json!({"library": witgen::library_text(&lib)});
    let run = |order: &[usize]| -> Result<TypeAggregator, String> {
        let mut agg = TypeAggregator::default();
        let mut cache = HashSet::new();
        let mut checker = SubtypeChecker::new(&mut cache);
        for i in order {
            let (n, t, k) = &contributors[*i];
            agg = agg.aggregate(n, t, *k, &mut checker).map_err(|e| format!("{e:#}"))?;
        }
        Ok(agg)
    };
    let n = contributors.len();
    let identity: Vec<usize> = (0..n).collect();
    ctx.eval();
    let first = match catch(|| run(&identity)) {
        Ok(r) => r,
        Err(p) => {
            ctx.violation(case, &format!("C09:aggregate-panic:{}", normalize_msg(&p.message)), p.to_string(), input);
            return;
        }
    };
    ctx.count(if first.is_ok() { "wit:aggregate:ok" } else { "wit:aggregate:conflict" });
    if let Err(e) = &first {
        // same-track versions are compatible by construction (later = earlier + functions)
        ctx.violation(case, "C09:wit:spurious-conflict", format!("requirements that are compatible by construction do not merge: {e}"), input.clone());
        return;
    }
    let agg = first.unwrap();
    let names0: BTreeMap<String, String> = contributors.iter().map(|(n, _, _)| (n.clone(), agg.canonical_import_name(n).to_string())).collect();
    let imports0: BTreeSet<String> = agg.imports().map(|(n, _)| n.to_string()).collect();
    for _ in 0..6 {
        let mut p = identity.clone();
        rng.shuffle(&mut p);
        ctx.eval();
        match catch(|| run(&p)) {
            Ok(Ok(a)) => {
                let names: BTreeMap<String, String> = contributors.iter().map(|(n, _, _)| (n.clone(), a.canonical_import_name(n).to_string())).collect();
                let imports: BTreeSet<String> = a.imports().map(|(n, _)| n.to_string()).collect();
                if names != names0 || imports != imports0 {
                    // shrink: drop contributors while the two orders still disagree
                    let mut keep: Vec<usize> = identity.clone();
                    let differs = |keep: &[usize]| -> bool {
                        let o1: Vec<usize> = identity.iter().copied().filter(|i| keep.contains(i)).collect();
                        let o2: Vec<usize> = p.iter().copied().filter(|i| keep.contains(i)).collect();
                        match (run(&o1), run(&o2)) {
                            (Ok(a), Ok(b)) => {
                                let ia: BTreeSet<String> = a.imports().map(|(n, _)| n.to_string()).collect();
                                let ib: BTreeSet<String> = b.imports().map(|(n, _)| n.to_string()).collect();
                                ia != ib
                            }
                            (Ok(_), Err(_)) | (Err(_), Ok(_)) => true,
                            _ => false,
                        }
                    };
                    let mut changed = true;
                    while changed {
                        changed = false;
                        for i in keep.clone() {
                            let trial: Vec<usize> = keep.iter().copied().filter(|k| *k != i).collect();
                            if trial.len() >= 2 && differs(&trial) {
                                keep = trial;
                                changed = true;
                            }
                        }
                    }
                    let o1: Vec<String> = identity.iter().filter(|i| keep.contains(i)).map(|i| contributors[*i].0.clone()).collect();
                    let o2: Vec<String> = p.iter().filter(|i| keep.contains(i)).map(|i| contributors[*i].0.clone()).collect();
                    let i1: Vec<usize> = identity.iter().copied().filter(|i| keep.contains(i)).collect();
                    let i2: Vec<usize> = p.iter().copied().filter(|i| keep.contains(i)).collect();
                    let d = |r: Result<TypeAggregator, String>| match r {
                        Ok(a) => format!("ok imports={:?}", a.imports().map(|(n, _)| n.to_string()).collect::<Vec<_>>()),
                        Err(e) => format!("ERR {e}"),
                    };
                    let (r1, r2) = (d(run(&i1)), d(run(&i2)));
                    // recorded finding: a contributor `use`s a version of an interface that differs from a
                    // compatible version aggregated under its own name; which name survives then depends
                    // on the order (the dependency import is merged without the keep-highest rule)
                    let used_ids = |i: usize| -> Vec<String> {
                        // transitive closure over `use` edges of the contributor's interface
                        let (_, t, k) = &contributors[i];
                        let mut out: Vec<String> = Vec::new();
                        let mut stack = match k {
                            ItemKind::Instance(id) => vec![*id],
                            _ => vec![],
                        };
                        let mut seen = Vec::new();
                        while let Some(id) = stack.pop() {
                            if seen.contains(&id) {
                                continue;
                            }
                            seen.push(id);
                            for u in t[id].uses.values() {
                                if let Some(n) = &t[u.interface].id {
                                    if !out.contains(n) {
                                        out.push(n.clone());
                                    }
                                }
                                stack.push(u.interface);
                            }
                        }
                        out
                    };
                    let cross_version_use = {
                        let used: Vec<String> = keep.iter().flat_map(|i| used_ids(*i)).collect();
                        let named: Vec<String> = keep.iter().map(|i| contributors[*i].0.clone()).collect();
                        used.iter().any(|u| named.iter().chain(used.iter()).any(|o| o != u && model_compatible(o, u)))
                    };
                    let sig = if cross_version_use {
                        "C09:wit:names-depend-on-order:use-dependency-on-another-version-of-a-merged-interface"
                    } else {
                        "C09:wit:names-depend-on-order"
                    };
                    ctx.violation(case, sig, format!("minimal disagreeing orders: {o1:?} -> {r1} vs {o2:?} -> {r2}; full: order {p:?}: imports {imports:?} vs {imports0:?}"), input.clone());
                }
                ctx.count("wit:permutations");
            }
            Ok(Err(e)) => ctx.violation(case, "C09:wit:verdict-depends-on-order", format!("order {p:?} fails: {e}"), input.clone()),
            Err(pn) => ctx.violation(case, &format!("C09:aggregate-panic:{}", normalize_msg(&pn.message)), pn.to_string(), input.clone()),
        }
    }
    for (i, (name, types, kind)) in contributors.iter().enumerate() {
        ctx.eval();
        let canon = agg.canonical_import_name(name).to_string();
        let Some((_, merged)) = agg.imports().find(|(n, _)| *n == canon) else {
            ctx.violation(case, "C09:canonical-name-not-imported", format!("`{name}` -> `{canon}` which is not imported"), input.clone());
            continue;
        };
        // canonical = highest version among the contributed names of the track
        let highest = contributors
            .iter()
            .map(|(n, _, _)| n)
            .filter(|m| *m == name || model_compatible(m, name))
            .max_by(|a, b| match (model_track(a), model_track(b)) {
                (Some((_, _, va)), Some((_, _, vb))) => va.cmp(&vb),
                _ => std::cmp::Ordering::Equal,
            })
            .unwrap();
        if canon != *highest {
            // the recorded finding (a `use` dependency on another version of an interface that is also
            // aggregated under a compatible name is merged without the keep-highest rule) has this
            // consequence too: inside its zone the deviation is reported under its signature
            let sig = if cross_version_use_among_all(&contributors) {
                "C09:wit:names-depend-on-order:use-dependency-on-another-version-of-a-merged-interface"
            } else {
                "C09:canonical-not-highest"
            };
            ctx.violation(case, sig, format!("canonical name of `{name}` is `{canon}`, highest contributed version is `{highest}`"), input.clone());
        }
        let mut cache = HashSet::new();
        if let Err(e) = SubtypeChecker::new(&mut cache).is_subtype(merged, agg.types(), *kind, types) {
            ctx.violation(case, "C09:merged-type-does-not-satisfy-contributor", format!("merged `{canon}` is not a subtype of contributor {i} (`{name}`): {e:#}"), input.clone());
        } else {
            ctx.count("wit:upper-bound-checks");
        }
    }
    ctx.shape_str(&format!("wit:{:?}", contributors.iter().map(|c| c.0.clone()).collect::<Vec<_>>()));
}

/// Zone of the recorded C09 finding over a whole contributor list: some contributor `use`s (directly
/// or transitively) a version of an interface that differs from a compatible version named by
/// another contributor or used by one.
fn cross_version_use_among_all(contributors: &[(String, Types, ItemKind)]) -> bool {
    let mut used: Vec<String> = Vec::new();
    for (_, t, k) in contributors {
        let mut stack = match k {
            ItemKind::Instance(id) => vec![*id],
            _ => vec![],
        };
        let mut seen = Vec::new();
        while let Some(id) = stack.pop() {
            if seen.contains(&id) {
                continue;
            }
            seen.push(id);
            for u in t[id].uses.values() {
                if let Some(n) = &t[u.interface].id {
                    if !used.contains(n) {
                        used.push(n.clone());
                    }
                }
                stack.push(u.interface);
            }
        }
    }
    let named: Vec<&String> = contributors.iter().map(|c| &c.0).collect();
    used.iter().any(|u| named.iter().copied().chain(used.iter()).any(|o| o != u && model_compatible(o, u)))
}

pub fn run(ctx: &mut Ctx) {
    // replay of one case of the WIT-derived workload (its cases are numbered from WITNESS_BASE / 2)
    if let Some(c) = ctx.only_case {
        if c >= crate::witness::WITNESS_BASE / 2 {
            ctx.begin(c);
            let mut rng = ctx.rng(c);
            check_wit_case(ctx, c, &mut rng);
            return;
        }
    }
    let wit_total = ctx.n(2_000, 600_000);
    for case in ctx.cases(wit_total) {
        // leave at least half of the time budget to the shaped workload below
        if ctx.out_of_budget_frac(0.5) {
            break;
        }
        let c = crate::witness::WITNESS_BASE / 2 + case;
        ctx.begin(c);
        let mut rng = ctx.rng(c);
        check_wit_case(ctx, c, &mut rng);
    }
    let total = ctx.n(15_000, 8_000_000);
    for case in ctx.cases(total) {
        if ctx.out_of_budget() {
            ctx.count("budget-stop");
            break;
        }
        ctx.begin(case);
        let mut rng = ctx.rng(case);
        let reqs = gen_reqs(&mut rng);
        check_case(ctx, case, &mut rng, &reqs);
    }
}
