pub mod c01;
pub mod c02;
pub mod c03;
pub mod c15;
