pub mod c15;
