//! C16 — composition is reproducible: same inputs, same bytes.
//!
//! Every worker process of this check runs the SAME inputs (replicate mode) under its own
//! per-process hash randomisation and records SHA-256 digests of every output; the supervisor
//! compares the digests across processes. In-process repetition and graph clones are compared
//! by the worker itself. A hash-seed probe shows that the processes really differed.

use crate::compose;
use crate::ctx::Ctx;
use crate::fixtures::{self, PipelineResult};
use crate::props::c01::{compose_opts_for, encode_outcome, lib_opts_for, Outcome};
use crate::props::c13::print_doc;
use crate::util::{catch, sha256_hex, Rng};
use crate::wacgen::{self, Gen};
use crate::witgen;
use serde_json::{json, Value};
use wac_graph::CompositionGraph;
use wac_types::{DefinedType, Enum, FuncType, PrimitiveType, Record, Type, ValueType};

fn hash_probe() -> String {
    let mut m = std::collections::HashMap::new();
    for i in 0..16u32 {
        m.insert(format!("key{i}"), i);
    }
    m.values().map(|v| format!("{v:x}")).collect::<Vec<_>>().join("")
}

/// Adds a handful of type definitions to the graph in an order drawn from `rng`, so that base
/// types are often defined after their dependants, plus many independent same-rank definitions.
fn define_types(rng: &mut Rng, g: &mut CompositionGraph) {
    let t = g.types_mut();
    let mut fields = indexmap::IndexMap::new();
    fields.insert("a".to_string(), ValueType::Primitive(PrimitiveType::U8));
    let rec = t.add_defined_type(DefinedType::Record(Record { fields }));
    let en = t.add_defined_type(DefinedType::Enum(Enum(["x", "y"].iter().map(|s| s.to_string()).collect())));
    let list = t.add_defined_type(DefinedType::List(ValueType::Defined(rec)));
    let pair = t.add_defined_type(DefinedType::Tuple(vec![ValueType::Defined(rec), ValueType::Defined(en)]));
    let opt = t.add_defined_type(DefinedType::Option(ValueType::Defined(en)));
    let mut params = indexmap::IndexMap::new();
    params.insert("p".to_string(), ValueType::Defined(rec));
    params.insert("q".to_string(), ValueType::Defined(en));
    let func = t.add_func_type(FuncType { params, result: Some(ValueType::Defined(list)), is_async: false });
    let mut indep = Vec::new();
    for i in 0..6 {
        let id = t.add_defined_type(DefinedType::Enum(Enum([format!("c{i}"), "z".to_string()].into_iter().collect())));
        indep.push((format!("indep{i}"), Type::Value(ValueType::Defined(id))));
    }
    let v = |id| Type::Value(ValueType::Defined(id));
    let mut defs: Vec<(String, Type)> = vec![
        ("rec".into(), v(rec)),
        ("en".into(), v(en)),
        ("lst".into(), v(list)),
        ("pair".into(), v(pair)),
        ("opt".into(), v(opt)),
        ("fun".into(), Type::Func(func)),
    ];
    defs.extend(indep);
    rng.shuffle(&mut defs);
    // records and enums must be named for their users to be valid: keep only orders in which
    // every direct user is *defined* (before or after) together with its bases
    for (name, ty) in defs {
        let _ = g.define_type(name, ty);
    }
}

fn digest_composition(ctx: &mut Ctx, case: u64, rng: &mut Rng, out: &mut Vec<Value>) {
    let lo = lib_opts_for(rng);
    let Ok(lib) = witgen::gen_library(rng, &lo) else { return };
    let mut co = compose_opts_for(rng);
    co.allow_back_edges = false;
    co.max_insts = rng.range(3, 8);
    co.wire_pct = *rng.pick(&[0, 30, 60]);
    let Ok(mut built) = compose::build(rng, &lib, &co) else { return };
    if built.panicked.is_some() {
        return;
    }
    if rng.chance(2, 3) {
        define_types(rng, &mut built.graph);
    }
    let input = json!({"library": witgen::library_text(&lib), "ops": compose::ops_json(&built.ops)});
    for define in [true, false] {
        let label = format!("composition:{case}:define={define}");
        let a = encode_outcome(&built.graph, define, false);
        let b = encode_outcome(&built.graph, define, false);
        let clone = built.graph.clone();
        let c = encode_outcome(&clone, define, false);
        let d = |o: &Outcome| match o {
            Outcome::Ok(b) => format!("ok:{}", sha256_hex(b)),
            Outcome::MergeConflict(m) => format!("merge-conflict:{}", sha256_hex(m.as_bytes())),
            other => other.class().to_string(),
        };
        ctx.eval();
        let (da, db, dc) = (d(&a), d(&b), d(&c));
        if da != db {
            ctx.violation(case, "C16:second-encode-in-process-differs", format!("{label}: {da} vs {db}"), input.clone());
        }
        if da != dc {
            ctx.violation(case, "C16:clone-encodes-differently", format!("{label}: {da} vs {dc}"), input.clone());
        }
        ctx.count(&format!("composition:{}", a.class()));
        out.push(json!([label, da]));
    }
}

fn digest_document(ctx: &mut Ctx, case: u64, rng: &mut Rng, out: &mut Vec<Value>) {
    let mut lay = rng.fork();
    let toks = {
        let mut g = Gen::new(rng);
        let n = g.rng.range(1, 8);
        g.document(n);
        g.toks
    };
    let text = wacgen::layout(&mut lay, &toks, true);
    ctx.eval();
    if let Ok(Ok((printed, _))) = catch(|| print_doc(&text)) {
        out.push(json!([format!("document:{case}:printed"), sha256_hex(printed.as_bytes())]));
        ctx.count("document:printed");
    }
    // a near-miss of the same document: the rendered diagnostic must be reproducible too
    let mut m = toks.clone();
    wacgen::mutate(rng, &mut m);
    let bad = wacgen::layout(&mut lay, &m, false);
    if let Ok(r) = catch(|| match wac_parser::Document::parse(&bad) {
        Ok(_) => "accepted".to_string(),
        Err(e) => fixtures::render(e, std::path::Path::new("doc.wac"), &bad),
    }) {
        out.push(json!([format!("document:{case}:diagnostic"), sha256_hex(r.as_bytes())]));
        ctx.count("document:diagnostic");
    }
}

/// Documents whose resolution fails with SEVERAL simultaneous faults of one kind: which of them
/// the diagnostic names must not depend on hashing.
const MULTI_FAULT_DOCS: &[(&str, &str)] = &[
    ("include-with-three-missing-names", "package test:comp;\n\nworld a {\n    import f: func();\n    import g: func();\n}\n\nworld b {\n    include a with { x as p, y as q, z as r };\n}\n"),
    ("include-with-two-missing-names", "package test:comp;\n\nworld a {\n    import f: func();\n}\n\nworld b {\n    include a with { f as ok, nope1 as p, nope2 as q };\n}\n"),
    ("four-imports-outside-the-target", "package test:comp targets test:comp/foo;\n\nworld foo {\n    export e: func();\n}\n\nimport alpha: func();\nimport beta: func();\nimport gamma: func();\nimport delta: func();\n"),
    ("three-exports-missing-from-the-composition", "package test:comp targets test:comp/foo;\n\nworld foo {\n    export a: func();\n    export b: func();\n    export c: func();\n}\n"),
    ("three-imports-with-mismatched-types", "package test:comp targets test:comp/foo;\n\nworld foo {\n    import alpha: func();\n    import beta: func();\n    import gamma: func();\n}\n\nimport alpha: func(a: u8);\nimport beta: func(a: u8);\nimport gamma: func(a: u8);\n"),
];

fn digest_multi_fault(ctx: &mut Ctx, out: &mut Vec<Value>) {
    for (i, (name, text)) in MULTI_FAULT_DOCS.iter().enumerate() {
        let case = 2_000_000 + i as u64;
        if !ctx.mine(case) {
            continue;
        }
        ctx.begin(case);
        let runs: Vec<String> = (0..6)
            .map(|_| {
                ctx.eval();
                match catch(|| match wac_parser::Document::parse(text) {
                    Ok(doc) => match doc.resolve(Default::default()) {
                        Ok(_) => "resolved".to_string(),
                        Err(e) => fixtures::render(e, std::path::Path::new("doc.wac"), text),
                    },
                    Err(e) => fixtures::render(e, std::path::Path::new("doc.wac"), text),
                }) {
                    Ok(s) => s,
                    Err(p) => format!("panic:{}", p.message),
                }
            })
            .collect();
        if runs.iter().any(|r| *r != runs[0]) {
            let distinct: std::collections::BTreeSet<&String> = runs.iter().collect();
            ctx.violation(case, &format!("C16:diagnostic-differs-in-process:{name}"), format!("the same document resolved six times in one process gives {} different diagnostics; two of them:\n{}", distinct.len(), distinct.iter().take(2).map(|s| s.as_str()).collect::<Vec<_>>().join("\n---\n")), json!({"text": text}));
        }
        ctx.count(if runs[0] == "resolved" { "multi-fault:resolved(harness)" } else { "multi-fault:diagnostic" });
        out.push(json!([format!("multi-fault:{name}"), sha256_hex(runs[0].as_bytes())]));
    }
}

pub fn run(ctx: &mut Ctx) {
    let mut digests: Vec<Value> = Vec::new();
    digest_multi_fault(ctx, &mut digests);
    ctx.note("list:hash_probe", json!([hash_probe()]));
    // fixtures: the resolver path (documents + file-system packages), successes and diagnostics
    let fx = fixtures::all();
    for (i, f) in fx.iter().enumerate() {
        let case = 1_000_000 + i as u64;
        if !ctx.mine(case) {
            continue;
        }
        ctx.begin(case);
        ctx.eval();
        let name = f.path.strip_prefix(fixtures::repo_root()).unwrap_or(&f.path).display().to_string();
        let r1 = catch(|| fixtures::pipeline(f));
        let r2 = catch(|| fixtures::pipeline(f));
        let dig = |r: &Result<PipelineResult, crate::util::Panicked>| match r {
            Ok(PipelineResult::Encoded(a, b)) => format!(
                "encoded:{}:{}",
                sha256_hex(a),
                match b {
                    Ok(b) => sha256_hex(b),
                    Err(e) => format!("err:{}", sha256_hex(e.as_bytes())),
                }
            ),
            Ok(PipelineResult::Failed(stage, text)) => format!("failed:{stage}:{}", sha256_hex(text.as_bytes())),
            Err(p) => format!("panic:{}", p.message),
        };
        let (d1, d2) = (dig(&r1), dig(&r2));
        if d1 != d2 {
            ctx.violation(case, "C16:fixture-pipeline-differs-in-process", format!("{name}: {d1} vs {d2}"), json!({"fixture": name}));
        }
        ctx.count(&format!("fixture:{}", d1.split(':').next().unwrap()));
        digests.push(json!([format!("fixture:{name}"), d1]));
    }
    let n_comp = ctx.n(60, 1500);
    for case in ctx.cases(n_comp) {
        if ctx.out_of_budget() {
            ctx.count("budget-stop");
            break;
        }
        ctx.begin(case);
        let mut rng = ctx.rng(case);
        digest_composition(ctx, case, &mut rng, &mut digests);
        if ctx.samples.len() < 1 {
            ctx.sample(json!({"case": case, "digests": digests.iter().rev().take(2).collect::<Vec<_>>()}));
        }
    }
    let n_doc = ctx.n(60, 1500);
    for case in ctx.cases(n_comp + n_doc) {
        if case < n_comp {
            continue;
        }
        if ctx.out_of_budget() {
            ctx.count("budget-stop");
            break;
        }
        ctx.begin(case);
        let mut rng = ctx.rng(case);
        digest_document(ctx, case, &mut rng, &mut digests);
    }
    // WAC programs (C04's generator): spreads filling several arguments, fills, nested `new`s
    let n_prog = ctx.n(200, 6000);
    if let Ok(pd) = crate::props::c04::ProgramDigester::new() {
        for k in ctx.cases(n_prog) {
            let case = 3_000_000 + k;
            if ctx.out_of_budget() {
                ctx.count("budget-stop");
                break;
            }
            ctx.begin(case);
            let seed = crate::util::mix(crate::util::mix(ctx.seed, 0xC04), k);
            ctx.eval();
            let runs: Vec<Option<(String, String)>> = (0..3).map(|_| pd.digest(seed)).collect();
            let Some((text, first)) = runs[0].clone() else { continue };
            if runs.iter().any(|r| r.as_ref().map(|x| &x.1) != Some(&first)) {
                ctx.violation(case, "C16:program-encoding-differs-in-process", format!("the same WAC program resolved and encoded three times in one process: {:?}", runs.iter().map(|r| r.as_ref().map(|x| x.1.clone())).collect::<Vec<_>>()), json!({"text": text}));
            }
            ctx.count(&format!("program:{}", first.split(':').next().unwrap_or("?")));
            digests.push(json!([format!("program:{k}"), first]));
        }
    }
    let n_hist = ctx.n(100, 3000);
    for case in ctx.cases(n_comp + n_doc + n_hist) {
        if case < n_comp + n_doc {
            continue;
        }
        if ctx.out_of_budget() {
            ctx.count("budget-stop");
            break;
        }
        ctx.begin(case);
        digest_history(ctx, case, &mut digests);
    }
    for d in &digests {
        ctx.shape_str(d[0].as_str().unwrap_or(""));
    }
    ctx.note("list:digests", json!([{"replica": ctx.shard, "digests": digests}]));
}


/// A history with removals: a base definition with several dependants is removed (the dependants go
/// with it), then new independent definitions are added and the graph is encoded. Freed node slots
/// are reused, so any hash-ordered step of the removal shows in the order of the output.
fn history_bytes(seed: u64) -> Result<Vec<u8>, String> {
    let mut rng = Rng::new(seed);
    let mut g = CompositionGraph::new();
    let v = |id| Type::Value(ValueType::Defined(id));
    let en = |g: &mut CompositionGraph, tag: &str| g.types_mut().add_defined_type(DefinedType::Enum(Enum([tag.to_string(), "z".to_string()].into_iter().collect())));
    if rng.chance(1, 2) {
        let k = en(&mut g, "keep");
        g.define_type("keep", v(k)).map_err(|e| e.to_string())?;
    }
    let base = en(&mut g, "base");
    let base_node = g.define_type("base", v(base)).map_err(|e| e.to_string())?;
    for i in 0..rng.range(2, 7) {
        let d = match rng.below(3) {
            0 => DefinedType::List(ValueType::Defined(base)),
            1 => DefinedType::Option(ValueType::Defined(base)),
            _ => DefinedType::Tuple(vec![ValueType::Defined(base), ValueType::Primitive(PrimitiveType::U8)]),
        };
        let id = g.types_mut().add_defined_type(d);
        g.define_type(format!("d{i}"), v(id)).map_err(|e| e.to_string())?;
    }
    g.remove_node(base_node);
    for i in 0..rng.range(2, 8) {
        let id = en(&mut g, &format!("n{i}"));
        g.define_type(format!("n{i}"), v(id)).map_err(|e| e.to_string())?;
    }
    g.encode(wac_graph::EncodeOptions { define_components: true, validate: false, processor: None }).map_err(|e| format!("{e:#}"))
}

fn digest_history(ctx: &mut Ctx, case: u64, digests: &mut Vec<Value>) {
    let seed = crate::util::mix(crate::util::mix(ctx.seed, 0xC16), case);
    ctx.eval();
    let runs: Vec<String> = (0..3)
        .map(|_| match catch(|| history_bytes(seed)) {
            Ok(Ok(b)) => format!("ok:{}", sha256_hex(&b)),
            Ok(Err(e)) => format!("err:{}", sha256_hex(e.as_bytes())),
            Err(p) => format!("panic:{}", p.message),
        })
        .collect();
    if runs.iter().any(|r| *r != runs[0]) {
        ctx.violation(case, "C16:history-with-removals-differs-in-process", format!("the same history replayed three times in one process: {runs:?}"), json!({"history_seed": seed}));
    }
    ctx.count(&format!("history-with-removals:{}", runs[0].split(':').next().unwrap()));
    digests.push(json!([format!("history:{case}"), runs[0]]));
}

pub fn debug_composition(rng: &mut Rng) {
    let lo = lib_opts_for(rng);
    let lib = witgen::gen_library(rng, &lo).unwrap();
    let mut co = compose_opts_for(rng);
    co.allow_back_edges = false;
    co.max_insts = rng.range(3, 8);
    co.wire_pct = *rng.pick(&[0, 30, 60]);
    let mut built = compose::build(rng, &lib, &co).unwrap();
    let with_types = rng.chance(2, 3);
    if with_types {
        define_types(rng, &mut built.graph);
    }
    println!("with_types={with_types}");
    for o in &built.ops {
        println!("{}", o.text);
    }
    if let Outcome::Ok(b) = encode_outcome(&built.graph, false, false) {
        println!("{}", wasmprinter::print_bytes(&b).unwrap());
    }
}
