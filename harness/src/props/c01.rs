//! C01 — every encoded composition is a valid component; no late validation failures.
//!
//! Monitor: every `encode` call of the workload (4 option combinations per composition) is
//! observed; `Ok(bytes)` is handed to the reference validator (V1) by the harness itself,
//! whether or not wac validated; `ValidationFailure` and panics are refuting events.

use crate::compose::{self, ComposeOpts};
use crate::ctx::Ctx;
use crate::decode::validate;
use crate::util::{self, catch, normalize_msg, short_location};
use crate::witgen::{self, LibOpts};
use serde_json::json;
use wac_graph::{CompositionGraph, EncodeError, EncodeOptions};

pub enum Outcome {
    Ok(Vec<u8>),
    Cycle,
    ImplicitConflict,
    MergeConflict(String),
    ValidationFailure(String),
    Panic(util::Panicked),
}

pub fn encode_outcome(graph: &CompositionGraph, define_components: bool, validate: bool) -> Outcome {
    let r = catch(|| {
        graph.encode(EncodeOptions { define_components, validate, processor: None })
    });
    match r {
        Err(p) => Outcome::Panic(p),
        Ok(Ok(b)) => Outcome::Ok(b),
        Ok(Err(EncodeError::GraphContainsCycle { .. })) => Outcome::Cycle,
        Ok(Err(EncodeError::ImplicitImportConflict { .. })) => Outcome::ImplicitConflict,
        Ok(Err(e @ EncodeError::ImportTypeMergeConflict { .. })) => {
            Outcome::MergeConflict(format!("{:#}", anyhow::Error::from(e)))
        }
        Ok(Err(EncodeError::ValidationFailure { source })) => Outcome::ValidationFailure(source.to_string()),
    }
}

impl Outcome {
    pub fn class(&self) -> &'static str {
        match self {
            Outcome::Ok(_) => "ok",
            Outcome::Cycle => "cycle",
            Outcome::ImplicitConflict => "implicit-import-conflict",
            Outcome::MergeConflict(_) => "merge-conflict",
            Outcome::ValidationFailure(_) => "validation-failure",
            Outcome::Panic(_) => "panic",
        }
    }
}

pub fn lib_opts_for(rng: &mut util::Rng) -> LibOpts {
    let mut o = LibOpts::default();
    o.n_ifaces = rng.range(1, 4);
    o.n_comps = rng.range(2, 5);
    o.iface.max_types = rng.range(0, 3);
    o.iface.max_funcs = rng.range(1, 3);
    o.iface.resources = rng.chance(2, 3);
    o
}

pub fn compose_opts_for(rng: &mut util::Rng) -> ComposeOpts {
    let mut o = ComposeOpts::default();
    o.max_insts = rng.range(1, 6);
    o.wire_pct = *rng.pick(&[0, 30, 60, 90, 100]);
    o.allow_back_edges = rng.chance(1, 8);
    o.name_all = rng.chance(1, 2);
    o
}

/// Attributes a reference-validator failure to a known cause using the *generator's model* of
/// the library (never wac's decoded types). `None` means "no known cause applies".
pub fn classify_failure(
    msg: &str,
    _define: bool,
    graph: &CompositionGraph,
    lib: Option<&witgen::Library>,
) -> Option<&'static str> {
    let lib = lib?;
    // The zones are deliberately coarse (message family + a feature of the generated library):
    // the composition builder keeps random cases out of them (compose::ComposeOpts::avoid_known),
    // so only rare leftovers and the directed witnesses land here.
    if msg.contains("resource types are not the same") && lib_has_cross_interface_resource_use(lib) {
        // one instantiation receives interface X from one provider and the interface Y whose
        // resource X uses from another provider (or from the implicit import)
        return Some("instantiation-arguments-mix-resource-providers");
    }
    if !_define && msg.contains("instance not valid to be used as export") && lib_uses_alias_of_named(lib) {
        return Some("imported-dependency-type:alias-type-re-encoded-structurally");
    }
    if msg.contains("instance not valid to be used as export") {
        // an exported instance (alias of an instance export, or a whole instantiation) whose
        // interface uses a type that has no name at the root of the composition
        let exports_instance_with_uses = graph.node_ids().any(|n| {
            let node = &graph[n];
            if node.export_name().is_none() {
                return false;
            }
            match node.kind() {
                wac_graph::NodeKind::Instantiation(_) => true,
                wac_graph::NodeKind::Alias => graph
                    .get_alias_source(n)
                    .map(|(_, export)| !witgen::use_closure(&lib.pkgs, export).is_empty())
                    .unwrap_or(false),
                _ => false,
            }
        });
        if exports_instance_with_uses {
            return Some("exported-instance-uses-types-not-named-at-root");
        }
    }
    None
}

pub fn lib_has_cross_interface_resource_use(lib: &witgen::Library) -> bool {
    lib.pkgs.iter().any(|p| {
        p.ifaces.iter().any(|i| {
            i.uses.iter().any(|u| u.is_resource || type_mentions_resource(&lib.pkgs, &u.source_id, &u.name, 0))
        })
    })
}

/// Attributes an encode panic to a known cause (model-based), returning a signature suffix.
fn classify_panic(file: &str, message: &str, define: bool, lib: Option<&witgen::Library>) -> String {
    let Some(lib) = lib else { return String::new() };
    if !define && file == "encoding.rs" && message.contains("no entry found for key") && lib_uses_alias_of_named(lib) {
        // same root cause as the invalid instance type: the alias is re-encoded structurally, and
        // when its definition mentions a resource that is not in scope the encoder panics
        return ":imported-dependency-type:alias-type-re-encoded-structurally".into();
    }
    String::new()
}

/// Whether some interface re-exports a used type through `type a = b`, or `use`s a type that is
/// itself such an alias of a named type (generator's / witness' model).
pub fn lib_uses_alias_of_named(lib: &witgen::Library) -> bool {
    use witgen::{Ty, TypeDef};
    lib.pkgs.iter().any(|p| {
        p.ifaces.iter().any(|i| {
            i.types.iter().any(|(_, d)| match d {
                TypeDef::Alias(Ty::Named(n)) => i.uses.iter().any(|u| u.as_name.as_ref().unwrap_or(&u.name) == n),
                _ => false,
            }) || i.uses.iter().any(|u| {
                witgen::find_iface(&lib.pkgs, &u.source_id)
                    .map(|src| src.types.iter().any(|(n, d)| *n == u.name && matches!(d, TypeDef::Alias(Ty::Named(_)))))
                    .unwrap_or(false)
            })
        })
    })
}

fn ty_mentions_resource(pkgs: &[witgen::Pkg], iface: &witgen::Iface, t: &witgen::Ty, depth: usize) -> bool {
    use witgen::Ty;
    match t {
        Ty::Prim(_) => false,
        Ty::Borrow(_) => true,
        Ty::Named(n) => {
            if let Some((_, d)) = iface.types.iter().find(|(tn, _)| tn == n) {
                return typedef_mentions_resource(pkgs, iface, d, depth + 1);
            }
            if let Some(u) = iface.uses.iter().find(|u| u.as_name.as_ref().unwrap_or(&u.name) == n) {
                return u.is_resource || type_mentions_resource(pkgs, &u.source_id, &u.name, depth + 1);
            }
            false
        }
        Ty::List(t) | Ty::Option(t) => ty_mentions_resource(pkgs, iface, t, depth),
        Ty::Result(a, b) => {
            a.as_ref().map(|t| ty_mentions_resource(pkgs, iface, t, depth)).unwrap_or(false)
                || b.as_ref().map(|t| ty_mentions_resource(pkgs, iface, t, depth)).unwrap_or(false)
        }
        Ty::Tuple(ts) => ts.iter().any(|t| ty_mentions_resource(pkgs, iface, t, depth)),
    }
}

fn typedef_mentions_resource(pkgs: &[witgen::Pkg], iface: &witgen::Iface, d: &witgen::TypeDef, depth: usize) -> bool {
    use witgen::TypeDef;
    if depth > 20 {
        return false;
    }
    match d {
        TypeDef::Resource { .. } => true,
        TypeDef::Record(fs) => fs.iter().any(|(_, t)| ty_mentions_resource(pkgs, iface, t, depth)),
        TypeDef::Variant(cs) => cs.iter().any(|(_, t)| t.as_ref().map(|t| ty_mentions_resource(pkgs, iface, t, depth)).unwrap_or(false)),
        TypeDef::Alias(t) => ty_mentions_resource(pkgs, iface, t, depth),
        TypeDef::Enum(_) | TypeDef::Flags(_) => false,
    }
}

fn type_mentions_resource(pkgs: &[witgen::Pkg], iface_id: &str, name: &str, depth: usize) -> bool {
    let Some(i) = witgen::find_iface(pkgs, iface_id) else { return false };
    ty_mentions_resource(pkgs, i, &witgen::Ty::Named(name.to_string()), depth)
}

#[allow(dead_code)]
fn has_resource(pkgs: &[witgen::Pkg], id: &str) -> bool {
    witgen::find_iface(pkgs, id)
        .map(|i| i.types.iter().any(|(_, d)| matches!(d, witgen::TypeDef::Resource { .. })) || i.uses.iter().any(|u| u.is_resource))
        .unwrap_or(false)
}

/// Checks one graph under all four option combinations.
pub fn check_graph(ctx: &mut Ctx, case: u64, graph: &CompositionGraph, input: &serde_json::Value, lib: Option<&witgen::Library>) {
    let mut results: Vec<(bool, bool, Outcome)> = Vec::new();
    for define in [true, false] {
        for val in [true, false] {
            ctx.eval();
            let o = encode_outcome(graph, define, val);
            ctx.count(&format!("encode:{}", o.class()));
            match &o {
                Outcome::Ok(bytes) => {
                    if let Err(msg) = validate(bytes) {
                        let sig = classify_failure(&msg, define, graph, lib)
                            .map(|c| format!("C01:invalid-composition:{c}"))
                            .unwrap_or_else(|| format!("C01:invalid-output:unclassified:{}", normalize_msg(&msg)));
                        ctx.violation(
                            case,
                            &sig,
                            format!("encode(define_components={define}, validate={val}) returned Ok but the reference validator rejects the bytes: {msg}"),
                            input.clone(),
                        );
                    } else {
                        ctx.count("validated-by-harness");
                    }
                }
                Outcome::ValidationFailure(msg) => {
                    let sig = classify_failure(msg, define, graph, lib)
                        .map(|c| format!("C01:invalid-composition:{c}"))
                        .unwrap_or_else(|| format!("C01:validation-failure:unclassified:{}", normalize_msg(msg)));
                    ctx.violation(
                        case,
                        &sig,
                        format!("encode(define_components={define}, validate={val}) failed post-hoc validation although every operation was accepted: {msg}"),
                        input.clone(),
                    );
                }
                Outcome::Panic(p) => {
                    let loc = short_location(&p.location);
                    let file = loc.rsplit('/').next().unwrap_or("").split(':').next().unwrap_or("").to_string();
                    let cause = classify_panic(&file, &p.message, define, lib);
                    ctx.violation(
                        case,
                        &format!("C01:encode-panic:{file}:{}{}", normalize_msg(&p.message), cause),
                        format!("encode(define_components={define}, validate={val}) panicked: {p}"),
                        input.clone(),
                    );
                }
                _ => {}
            }
            results.push((define, val, o));
        }
    }
    // validate flag must change nothing but the validation step
    for define in [true, false] {
        let a = results.iter().find(|r| r.0 == define && r.1).unwrap();
        let b = results.iter().find(|r| r.0 == define && !r.1).unwrap();
        match (&a.2, &b.2) {
            (Outcome::Ok(x), Outcome::Ok(y)) => {
                if x != y {
                    ctx.violation(
                        case,
                        "C01:validate-flag-changes-bytes",
                        format!("define_components={define}: bytes differ between validate=true and validate=false"),
                        input.clone(),
                    );
                }
            }
            (x, y) => {
                let (cx, cy) = (x.class(), y.class());
                if cx != cy && cx != "validation-failure" && cx != "panic" && cy != "panic" {
                    ctx.violation(
                        case,
                        &format!("C01:validate-flag-changes-outcome:{cx}:{cy}"),
                        format!("define_components={define}: outcome {cx} with validation, {cy} without"),
                        input.clone(),
                    );
                }
            }
        }
    }
}

/// Directed witnesses of the recorded findings (run by whichever worker owns their case id).
fn run_witnesses(ctx: &mut Ctx) {
    for (i, script) in crate::witness::scripts().iter().enumerate() {
        let case = crate::witness::WITNESS_BASE + i as u64;
        if !ctx.mine(case) {
            continue;
        }
        ctx.begin(case);
        let lib = match crate::witness::build_library(script) {
            Ok(l) => l,
            Err(e) => {
                ctx.count("witness-build-failed");
                ctx.note("witness_error", json!(format!("{}: {e:#}", script.name)));
                continue;
            }
        };
        match crate::witness::run_script(script, &lib) {
            Ok(built) => {
                ctx.count("witness-run");
                let input = json!({"witness": script.name, "library": witgen::library_text(&lib), "ops": compose::ops_json(&built.ops)});
                check_graph(ctx, case, &built.graph, &input, Some(&lib));
            }
            Err(e) => {
                ctx.count("witness-script-rejected");
                ctx.note("witness_error", json!(format!("{}: {e}", script.name)));
            }
        }
    }
}

pub fn run(ctx: &mut Ctx) {
    run_witnesses(ctx);
    let total = ctx.n(20_000, 2_000_000);
    for case in ctx.cases(total) {
        if ctx.out_of_budget() {
            ctx.count("budget-stop");
            break;
        }
        ctx.begin(case);
        let mut rng = ctx.rng(case);
        let lo = lib_opts_for(&mut rng);
        let lib = match witgen::gen_library(&mut rng, &lo) {
            Ok(l) => l,
            Err(_) => {
                ctx.count("gen-fail");
                continue;
            }
        };
        let co = compose_opts_for(&mut rng);
        let built = match compose::build(&mut rng, &lib, &co) {
            Ok(b) => b,
            Err(e) => {
                // a valid generated component that wac cannot load is C08/C14 territory; count it
                ctx.count("package-load-fail");
                ctx.note("last_package_load_failure", json!(util::clip(&e, 300)));
                continue;
            }
        };
        if built.panicked.is_some() {
            ctx.count("build-api-panic(see C06)");
            continue;
        }
        let input = json!({
            "library": witgen::library_text(&lib),
            "ops": compose::ops_json(&built.ops),
        });
        check_graph(ctx, case, &built.graph, &input, Some(&lib));
        ctx.count("compositions");
        if built.rejected > 0 {
            ctx.count("compositions-with-rejected-ops");
        }
        let v = compose::view(&built.graph);
        let nontrivial = !built.insts.is_empty() && (built.n_arg_edges > 0 || !v.unsatisfied.is_empty());
        if nontrivial {
            let shape = format!(
                "{}|{}|{}",
                built.ops.iter().map(|o| shape_of_op(&o.text)).collect::<Vec<_>>().join(";"),
                lib.comps.iter().map(|c| format!("{}i{}e", c.world.imports.len(), c.world.exports.len())).collect::<Vec<_>>().join(","),
                v.unsatisfied.len()
            );
            ctx.shape_str(&shape);
        }
        ctx.add("arg-edges", built.n_arg_edges as u64);
        ctx.add("implicit-args", v.unsatisfied.len() as u64);
        ctx.add("explicit-imports", built.n_explicit_imports as u64);
        ctx.add("exports", built.n_exports as u64);
        if ctx.samples.len() < 2 && nontrivial {
            ctx.sample(json!({"case": case, "ops": compose::ops_json(&built.ops), "components": lib.comps.iter().map(|c| witgen::print_world_pkg(&c.world)).collect::<Vec<_>>()}));
        }
    }
}

/// Abstracts node numbers away from an op description, keeping its kind and names.
pub fn shape_of_op(text: &str) -> String {
    text.split_whitespace()
        .map(|w| if w.starts_with('n') && w[1..].chars().all(|c| c.is_ascii_digit()) { "n" } else { w })
        .collect::<Vec<_>>()
        .join(" ")
}
