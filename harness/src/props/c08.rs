//! C08 — decoding a package preserves its component type; re-encoding stays satisfiable.
//!
//! Monitors: the decoded world is walked through the public `Types` API and compared with the
//! generating WIT model (names, order, kinds, function signatures, value types, resource
//! identity, `use` provenance) and with the independent decoder D1 (names and order); the
//! component type wac writes for an imported dependency is compared with the actual component
//! by the reference validator's subtype relation.

use crate::compose::sort_of;
use crate::ctx::Ctx;
use crate::props::c15::model_compatible;
use crate::refval;
use crate::util::{catch, normalize_msg};
use crate::witgen::{self, Func, Iface, LibOpts, Library, Pkg, Ty, TypeDef, WorldItem};
use serde_json::json;
use std::collections::HashSet;
use wac_graph::{CompositionGraph, EncodeOptions};
use wac_types::{DefinedType, ItemKind, Package, SubtypeChecker, Type, Types, ValueType};

fn render_wac(types: &Types, vt: ValueType, depth: usize) -> String {
    if depth > 30 {
        return "…".into();
    }
    match vt {
        ValueType::Primitive(p) => p.desc().to_string(),
        ValueType::Own(r) => format!("own<{}>", types[types.resolve_resource(r)].name),
        ValueType::Borrow(r) => format!("borrow<{}>", types[types.resolve_resource(r)].name),
        ValueType::Defined(id) => match &types[id] {
            DefinedType::Tuple(ts) => format!("tuple<{}>", ts.iter().map(|t| render_wac(types, *t, depth + 1)).collect::<Vec<_>>().join(",")),
            DefinedType::List(t) => format!("list<{}>", render_wac(types, *t, depth + 1)),
            DefinedType::FixedSizeList(t, n) => format!("list<{},{n}>", render_wac(types, *t, depth + 1)),
            DefinedType::Option(t) => format!("option<{}>", render_wac(types, *t, depth + 1)),
            DefinedType::Result { ok, err } => format!(
                "result<{},{}>",
                ok.map(|t| render_wac(types, t, depth + 1)).unwrap_or_else(|| "_".into()),
                err.map(|t| render_wac(types, t, depth + 1)).unwrap_or_else(|| "_".into())
            ),
            DefinedType::Variant(v) => format!(
                "variant{{{}}}",
                v.cases.iter().map(|(n, t)| match t {
                    Some(t) => format!("{n}({})", render_wac(types, *t, depth + 1)),
                    None => n.clone(),
                }).collect::<Vec<_>>().join(",")
            ),
            DefinedType::Record(r) => format!("record{{{}}}", r.fields.iter().map(|(n, t)| format!("{n}:{}", render_wac(types, *t, depth + 1))).collect::<Vec<_>>().join(",")),
            DefinedType::Flags(f) => format!("flags{{{}}}", f.0.iter().cloned().collect::<Vec<_>>().join(",")),
            DefinedType::Enum(e) => format!("enum{{{}}}", e.0.iter().cloned().collect::<Vec<_>>().join(",")),
            DefinedType::Alias(t) => render_wac(types, *t, depth + 1),
            DefinedType::Stream(t) => format!("stream<{}>", t.map(|t| render_wac(types, t, depth + 1)).unwrap_or_default()),
            DefinedType::Future(t) => format!("future<{}>", t.map(|t| render_wac(types, t, depth + 1)).unwrap_or_default()),
        },
    }
}

/// Resolves a type name visible in `iface` to (defining interface, original name).
fn resolve_name<'a>(pkgs: &'a [Pkg], iface: &'a Iface, name: &str, depth: usize) -> Option<(&'a Iface, String)> {
    if depth > 20 {
        return None;
    }
    if iface.types.iter().any(|(n, _)| n == name) {
        return Some((iface, name.to_string()));
    }
    let u = iface.uses.iter().find(|u| u.as_name.as_deref().unwrap_or(&u.name) == name)?;
    let src = witgen::find_iface(pkgs, &u.source_id)?;
    resolve_name(pkgs, src, &u.name, depth + 1)
}

fn render_model(pkgs: &[Pkg], iface: &Iface, t: &Ty, depth: usize) -> String {
    if depth > 30 {
        return "…".into();
    }
    match t {
        Ty::Prim(p) => p.to_string(),
        Ty::List(t) => format!("list<{}>", render_model(pkgs, iface, t, depth + 1)),
        Ty::Option(t) => format!("option<{}>", render_model(pkgs, iface, t, depth + 1)),
        Ty::Result(o, e) => format!(
            "result<{},{}>",
            o.as_ref().map(|t| render_model(pkgs, iface, t, depth + 1)).unwrap_or_else(|| "_".into()),
            e.as_ref().map(|t| render_model(pkgs, iface, t, depth + 1)).unwrap_or_else(|| "_".into())
        ),
        Ty::Tuple(ts) => format!("tuple<{}>", ts.iter().map(|t| render_model(pkgs, iface, t, depth + 1)).collect::<Vec<_>>().join(",")),
        Ty::Borrow(n) => match resolve_name(pkgs, iface, n, 0) {
            Some((_, orig)) => format!("borrow<{orig}>"),
            None => format!("borrow<?{n}>"),
        },
        Ty::Named(n) => match resolve_name(pkgs, iface, n, 0) {
            None => format!("?{n}"),
            Some((src, orig)) => {
                let def = &src.types.iter().find(|(tn, _)| *tn == orig).unwrap().1;
                match def {
                    TypeDef::Resource { .. } => format!("own<{orig}>"),
                    TypeDef::Alias(t) => render_model(pkgs, src, t, depth + 1),
                    TypeDef::Enum(cs) => format!("enum{{{}}}", cs.join(",")),
                    TypeDef::Flags(cs) => format!("flags{{{}}}", cs.join(",")),
                    TypeDef::Record(fs) => format!("record{{{}}}", fs.iter().map(|(n, t)| format!("{n}:{}", render_model(pkgs, src, t, depth + 1))).collect::<Vec<_>>().join(",")),
                    TypeDef::Variant(cs) => format!(
                        "variant{{{}}}",
                        cs.iter().map(|(n, t)| match t {
                            Some(t) => format!("{n}({})", render_model(pkgs, src, t, depth + 1)),
                            None => n.clone(),
                        }).collect::<Vec<_>>().join(",")
                    ),
                }
            }
        },
    }
}

fn model_sig(pkgs: &[Pkg], iface: &Iface, f: &Func, self_res: Option<(&str, &str)>) -> String {
    let mut params: Vec<String> = Vec::new();
    let mut result = f.result.as_ref().map(|t| render_model(pkgs, iface, t, 0));
    if let Some((kind, res)) = self_res {
        match kind {
            "method" => params.push(format!("self:borrow<{res}>")),
            "constructor" => result = Some(format!("own<{res}>")),
            _ => {}
        }
    }
    for (n, t) in &f.params {
        params.push(format!("{n}:{}", render_model(pkgs, iface, t, 0)));
    }
    format!("({})->{}", params.join(","), result.unwrap_or_else(|| "()".into()))
}

fn wac_sig(types: &Types, id: wac_types::FuncTypeId) -> String {
    let f = &types[id];
    let params: Vec<String> = f.params.iter().map(|(n, t)| format!("{n}:{}", render_wac(types, *t, 0))).collect();
    format!("({})->{}{}", params.join(","), f.result.map(|t| render_wac(types, t, 0)).unwrap_or_else(|| "()".into()), if f.is_async { " async" } else { "" })
}

/// All functions the model says interface `iface` has, with their extern names.
fn model_funcs(pkgs: &[Pkg], iface: &Iface) -> Vec<(String, String)> {
    let mut out = Vec::new();
    for (tname, def) in &iface.types {
        if let TypeDef::Resource { ctor, methods, statics } = def {
            if let Some(ps) = ctor {
                let f = Func { name: String::new(), params: ps.clone(), result: None };
                out.push((format!("[constructor]{tname}"), model_sig(pkgs, iface, &f, Some(("constructor", tname)))));
            }
            for m in methods {
                out.push((format!("[method]{tname}.{}", m.name), model_sig(pkgs, iface, m, Some(("method", tname)))));
            }
            for s in statics {
                out.push((format!("[static]{tname}.{}", s.name), model_sig(pkgs, iface, s, Some(("static", tname)))));
            }
        }
    }
    for f in &iface.funcs {
        out.push((f.name.clone(), model_sig(pkgs, iface, f, None)));
    }
    out
}

fn check_interface(ctx: &mut Ctx, case: u64, lib: &Library, types: &Types, dir: &str, name: &str, iid: wac_types::InterfaceId, model: &Iface, input: &serde_json::Value) {
    let decoded = &types[iid];
    let pkgs = &lib.pkgs;
    // functions
    for (fname, want) in model_funcs(pkgs, model) {
        ctx.eval();
        match decoded.exports.get(&fname) {
            Some(ItemKind::Func(fid)) => {
                let got = wac_sig(types, *fid);
                if got != want {
                    ctx.violation(case, &format!("C08:signature-differs:{dir}"), format!("{dir} `{name}` function `{fname}`: decoded {got}, WIT model {want}"), input.clone());
                } else {
                    ctx.count("signatures-equal");
                }
            }
            Some(_) => ctx.violation(case, &format!("C08:kind-differs:{dir}"), format!("{dir} `{name}` item `{fname}` is not a function"), input.clone()),
            None => ctx.violation(case, &format!("C08:function-missing:{dir}"), format!("{dir} `{name}` lacks function `{fname}` (has {:?})", decoded.exports.keys().collect::<Vec<_>>()), input.clone()),
        }
    }
    // types that survived (wit-component prunes unused types of imports)
    for (ename, kind) in &decoded.exports {
        if let ItemKind::Type(Type::Value(vt)) = kind {
            if let Some((src, orig)) = resolve_name(pkgs, model, ename, 0) {
                ctx.eval();
                let def = &src.types.iter().find(|(n, _)| *n == orig).unwrap().1;
                if !matches!(def, TypeDef::Resource { .. }) {
                    let want = render_model(pkgs, model, &Ty::Named(ename.clone()), 0);
                    let got = render_wac(types, *vt, 0);
                    if got != want {
                        ctx.violation(case, &format!("C08:value-type-differs:{dir}"), format!("{dir} `{name}` type `{ename}`: decoded {got}, WIT model {want}"), input.clone());
                    } else {
                        ctx.count("value-types-equal");
                    }
                }
            } else {
                ctx.violation(case, &format!("C08:unknown-type-export:{dir}"), format!("{dir} `{name}` exports type `{ename}` which the model does not know"), input.clone());
            }
        }
        if let ItemKind::Type(Type::Resource(rid)) = kind {
            // resource identity: every handle in this interface's functions that names this resource
            // resolves to the same resource id
            let root = types.resolve_resource(*rid);
            for (fname, k) in &decoded.exports {
                if let ItemKind::Func(fid) = k {
                    if fname.contains(&format!("]{ename}.")) || fname.ends_with(&format!("]{ename}")) {
                        let f = &types[*fid];
                        for (pn, pt) in f.params.iter().filter(|(pn, _)| *pn == "self") {
                            if let ValueType::Borrow(r) = pt {
                                ctx.eval();
                                if types.resolve_resource(*r) != root {
                                    ctx.violation(case, "C08:resource-identity", format!("{dir} `{name}`: `{pn}` of `{fname}` is not a borrow of resource `{ename}`"), input.clone());
                                } else {
                                    ctx.count("resource-identities-checked");
                                }
                            }
                        }
                    }
                }
            }
        }
    }
    // `use` provenance
    for u in &model.uses {
        let local = u.as_name.as_deref().unwrap_or(&u.name);
        if !decoded.exports.contains_key(local) {
            continue; // pruned
        }
        ctx.eval();
        match decoded.uses.get(local) {
            None => ctx.violation(case, &format!("C08:use-provenance-lost:{dir}"), format!("{dir} `{name}`: type `{local}` is used from `{}` but the decoded interface records no use", u.source_id), input.clone()),
            Some(used) => {
                let src_id = types[used.interface].id.clone().unwrap_or_default();
                // the owner of the type may be further up the chain of uses and aliases
                let chain = provenance_chain(pkgs, &u.source_id, &u.name);
                let chain_ok = chain.iter().any(|(i, _)| *i == src_id || model_compatible(i, &src_id));
                if !chain_ok {
                    ctx.violation(case, &format!("C08:use-provenance-wrong-interface:{dir}"), format!("{dir} `{name}`: type `{local}` is recorded as used from `{src_id}`, the model says `{}`", u.source_id), input.clone());
                } else {
                    ctx.count("use-provenance-checked");
                }
                let orig = used.name.clone().unwrap_or_else(|| local.to_string());
                // original name: any of the names the type had on the way
                let names: Vec<String> = chain.iter().map(|(_, n)| n.clone()).collect();
                if !names.contains(&orig) {
                    ctx.violation(case, &format!("C08:use-provenance-wrong-name:{dir}"), format!("{dir} `{name}`: type `{local}` is recorded as `{orig}` of `{src_id}`, the model says one of {names:?}"), input.clone());
                }
            }
        }
    }
}


/// The (interface id, type name) pairs a used type passes through on the way to its owner:
/// `use` edges and `type a = b` aliases of named types (an alias is the same type, `(eq b)`).
fn provenance_chain(pkgs: &[Pkg], start_iface: &str, start_name: &str) -> Vec<(String, String)> {
    let mut out = vec![(start_iface.to_string(), start_name.to_string())];
    let (mut cur, mut cur_name) = (start_iface.to_string(), start_name.to_string());
    for _ in 0..20 {
        let Some(si) = witgen::find_iface(pkgs, &cur) else { break };
        if let Some(x) = si.uses.iter().find(|x| x.as_name.as_deref().unwrap_or(&x.name) == cur_name) {
            cur = x.source_id.clone();
            cur_name = x.name.clone();
        } else if let Some((_, TypeDef::Alias(Ty::Named(n)))) = si.types.iter().find(|(n, _)| *n == cur_name) {
            cur_name = n.clone();
        } else {
            break;
        }
        out.push((cur.clone(), cur_name.clone()));
    }
    out
}

fn check_component(ctx: &mut Ctx, case: u64, lib: &Library, ci: usize) {
    let c = &lib.comps[ci];
    let input = json!({"library": lib.pkg_texts.iter().map(|t| t.1.clone()).collect::<Vec<_>>(), "world": witgen::print_world_pkg(&c.world)});
    let mut types = Types::default();
    let r = catch(|| Package::from_bytes(&c.name, None, c.bytes.clone(), &mut types).map_err(|e| format!("{e:#}")));
    let pkg = match r {
        Ok(Ok(p)) => p,
        Ok(Err(e)) => {
            ctx.violation(case, &format!("C08:valid-component-rejected:{}", normalize_msg(&e)), format!("Package::from_bytes rejects a component built by wit-component: {e}"), input);
            return;
        }
        Err(p) => {
            ctx.violation(case, &format!("C08:decode-panic:{}", normalize_msg(&p.message)), p.to_string(), input);
            return;
        }
    };
    let world = &types[pkg.ty()];
    // names, order, kinds vs the independent decoder
    ctx.eval();
    let d = &c.decoded;
    let got_imports: Vec<(String, crate::decode::Sort)> = world.imports.iter().map(|(n, k)| (n.clone(), sort_of(*k))).collect();
    let want_imports: Vec<(String, crate::decode::Sort)> = d.imports.iter().map(|i| (i.name.clone(), i.sort)).collect();
    if got_imports != want_imports {
        ctx.violation(case, "C08:imports-differ", format!("decoded imports {got_imports:?}, the binary has {want_imports:?}"), input.clone());
    }
    let got_exports: Vec<(String, crate::decode::Sort)> = world.exports.iter().map(|(n, k)| (n.clone(), sort_of(*k))).collect();
    let want_exports: Vec<(String, crate::decode::Sort)> = d.exports.iter().map(|e| (e.0.clone(), e.1)).collect();
    if got_exports != want_exports {
        ctx.violation(case, "C08:exports-differ", format!("decoded exports {got_exports:?}, the binary has {want_exports:?}"), input.clone());
    }
    let inst = &types[pkg.instance_type()];
    let inst_exports: Vec<(String, crate::decode::Sort)> = inst.exports.iter().map(|(n, k)| (n.clone(), sort_of(*k))).collect();
    if inst_exports != got_exports {
        ctx.violation(case, "C08:instance-type-differs-from-exports", format!("instance type {inst_exports:?} vs world exports {got_exports:?}"), input.clone());
    }
    // against the generating model
    for (dir, items, map) in [("import", &c.world.imports, &world.imports), ("export", &c.world.exports, &world.exports)] {
        for item in items.iter() {
            match item {
                WorldItem::Iface { id } => {
                    let Some(model) = witgen::find_iface(&lib.pkgs, id) else { continue };
                    match map.get(id) {
                        Some(ItemKind::Instance(iid)) => check_interface(ctx, case, lib, &types, dir, id, *iid, model, &input),
                        Some(_) => ctx.violation(case, &format!("C08:kind-differs:{dir}"), format!("`{id}` is not an instance"), input.clone()),
                        None => {
                            // an imported interface nothing is used from is dropped by wit-component
                            if dir == "export" {
                                ctx.violation(case, "C08:export-missing", format!("world export `{id}` is missing from the decoded package"), input.clone());
                            }
                        }
                    }
                }
                WorldItem::Inline { name, iface } => {
                    if let Some(ItemKind::Instance(iid)) = map.get(name) {
                        check_interface(ctx, case, lib, &types, dir, name, *iid, iface, &input);
                    }
                }
                WorldItem::Func { name, func } => {
                    ctx.eval();
                    let empty = Iface { name: String::new(), uses: vec![], types: vec![], funcs: vec![] };
                    let want = model_sig(&lib.pkgs, &empty, func, None);
                    match map.get(name) {
                        Some(ItemKind::Func(fid)) => {
                            let got = wac_sig(&types, *fid);
                            if got != want {
                                ctx.violation(case, &format!("C08:signature-differs:{dir}"), format!("{dir} function `{name}`: decoded {got}, WIT model {want}"), input.clone());
                            } else {
                                ctx.count("signatures-equal");
                            }
                        }
                        _ => ctx.violation(case, &format!("C08:function-missing:{dir}"), format!("{dir} function `{name}` missing or of another kind"), input.clone()),
                    }
                }
            }
        }
    }
    // two independent decodes are mutually subtype
    let mut types2 = Types::default();
    if let Ok(pkg2) = Package::from_bytes(&c.name, None, c.bytes.clone(), &mut types2) {
        for (a, at, b, bt, dirn) in [(pkg.ty(), &types, pkg2.ty(), &types2, "1<:2"), (pkg2.ty(), &types2, pkg.ty(), &types, "2<:1")] {
            ctx.eval();
            let mut cache = HashSet::new();
            if let Err(e) = SubtypeChecker::new(&mut cache).is_subtype(ItemKind::Component(a), at, ItemKind::Component(b), bt) {
                ctx.violation(case, "C08:two-decodes-not-mutual-subtypes", format!("{dirn}: {e:#}"), input.clone());
            }
        }
        ctx.count("mutual-subtype-checks");
    }
    check_dep_type(ctx, case, &c.name, &c.bytes, &input);
}

/// Imported-dependency mode: the actual component satisfies the component type wac writes for it.
fn check_dep_type(ctx: &mut Ctx, case: u64, name: &str, bytes: &[u8], input: &serde_json::Value) {
    ctx.eval();
    let r = catch(|| {
        let mut g = CompositionGraph::new();
        let p = Package::from_bytes(name, None, bytes.to_vec(), g.types_mut()).map_err(|e| format!("{e:#}"))?;
        let import_name = crate::compose::package_import_name(&p);
        let id = g.register_package(p).map_err(|e| e.to_string())?;
        g.instantiate(id);
        let out = g.encode(EncodeOptions { define_components: false, validate: false, processor: None }).map_err(|e| format!("encode: {e:#}"))?;
        Ok::<_, String>((out, import_name))
    });
    match r {
        Err(p) => {
            ctx.violation(case, &format!("C08:dep-type-panic:{}", normalize_msg(&p.message)), p.to_string(), input.clone());
        }
        Ok(Err(e)) => {
            ctx.count("dep-type:encode-error");
            ctx.note("last_dep_type_error", json!(e));
        }
        Ok(Ok((out, import_name))) => match refval::nest(&[bytes, &out]) {
            Err(e) => {
                // the output alone must validate; if it does not, that is C01's subject
                ctx.count("dep-type:output-does-not-validate(C01)");
                ctx.note("last_dep_type_invalid", json!(e));
            }
            Ok(n) => match n.import_of(1, &import_name) {
                None => ctx.violation(case, "C08:dep-import-missing", format!("output has no import `{import_name}` (imports: {:?})", n.import_names(1)), input.clone()),
                Some(ety) => {
                    if n.component_is_subtype_of(0, &ety) {
                        ctx.count("dep-type:actual-component-satisfies-written-type");
                    } else {
                        ctx.violation(case, "C08:actual-component-does-not-satisfy-written-type", format!("the reference validator does not accept the original component for import `{import_name}`"), input.clone());
                    }
                }
            },
        },
    }
}

/// Shaped components (WAT): function signatures the WIT-derived workload cannot produce, above all
/// `async` functions at every nesting level. (path, async?, parameter names, has result)
const SHAPED: &[(&str, &[(&[&str], bool, &[&str], bool)])] = &[
    (
        "(component (import \"f\" (func async (param \"x\" u8) (result string))) (import \"g\" (func (param \"y\" u32))) (import \"i\" (instance (export \"a\" (func async)) (export \"s\" (func (result u8))))))",
        &[(&["f"], true, &["x"], true), (&["g"], false, &["y"], false), (&["i", "a"], true, &[], false), (&["i", "s"], false, &[], true)],
    ),
    (
        "(component (import \"c\" (component (import \"p\" (func async (param \"k\" bool))) (export \"q\" (func async (param \"z\" bool) (result u8))) (export \"r\" (func)))))",
        &[(&["c", "import:p"], true, &["k"], false), (&["c", "export:q"], true, &["z"], true), (&["c", "export:r"], false, &[], false)],
    ),
    (
        "(component (import \"i\" (instance (export \"n\" (instance (export \"deep\" (func async (param \"a\" string) (param \"b\" string))))))) (import \"h\" (func async)))",
        &[(&["i", "n", "deep"], true, &["a", "b"], false), (&["h"], true, &[], false)],
    ),
];

fn lookup(types: &Types, kind: ItemKind, path: &[&str]) -> Option<ItemKind> {
    if path.is_empty() {
        return Some(kind);
    }
    let (first, rest) = (path[0], &path[1..]);
    let next = match kind {
        ItemKind::Instance(id) => types[id].exports.get(first).copied(),
        ItemKind::Component(id) => match first.split_once(':') {
            Some(("import", n)) => types[id].imports.get(n).copied(),
            Some(("export", n)) => types[id].exports.get(n).copied(),
            _ => types[id].imports.get(first).copied(),
        },
        _ => None,
    }?;
    lookup(types, next, rest)
}

fn check_shaped(ctx: &mut Ctx) {
    for (i, (wat, expected)) in SHAPED.iter().enumerate() {
        let case = crate::witness::WITNESS_BASE + 100 + i as u64;
        if !ctx.mine(case) {
            continue;
        }
        ctx.begin(case);
        let input = json!({"wat": wat});
        let Ok(bytes) = wat::parse_str(wat) else {
            ctx.count("harness:shaped-wat-does-not-assemble");
            continue;
        };
        let mut types = Types::default();
        let pkg = match catch(|| Package::from_bytes("test:shaped", None, bytes.clone(), &mut types).map_err(|e| format!("{e:#}"))) {
            Ok(Ok(p)) => p,
            Ok(Err(e)) => {
                ctx.violation(case, "C08:shaped-component-rejected", e, input.clone());
                continue;
            }
            Err(p) => {
                ctx.violation(case, &format!("C08:decode-panic:{}", normalize_msg(&p.message)), p.to_string(), input.clone());
                continue;
            }
        };
        for (path, is_async, params, has_result) in expected.iter() {
            ctx.eval();
            match lookup(&types, ItemKind::Component(pkg.ty()), path) {
                Some(ItemKind::Func(f)) => {
                    let ft = &types[f];
                    let names: Vec<&str> = ft.params.keys().map(|s| s.as_str()).collect();
                    if ft.is_async != *is_async {
                        ctx.violation(case, "C08:function-async-flag-lost", format!("{path:?}: decoded is_async = {}, the component says {is_async}", ft.is_async), input.clone());
                    } else if names != *params || ft.result.is_some() != *has_result {
                        ctx.violation(case, "C08:shaped-function-signature", format!("{path:?}: decoded params {names:?} result {}; the component has {params:?} result {has_result}", ft.result.is_some()), input.clone());
                    } else {
                        ctx.count("shaped-signatures-equal");
                        if *is_async {
                            ctx.count("async-functions-checked");
                        }
                    }
                }
                other => ctx.violation(case, "C08:shaped-item-missing", format!("{path:?} decodes to {:?}", other.map(|k| k.desc(&types).to_string())), input.clone()),
            }
        }
        check_dep_type(ctx, case, "test:shaped", &bytes, &input);
    }
}

pub fn run(ctx: &mut Ctx) {
    check_shaped(ctx);
    let total = ctx.n(6_000, 2_000_000);
    for case in ctx.cases(total) {
        if ctx.out_of_budget() {
            ctx.count("budget-stop");
            break;
        }
        ctx.begin(case);
        let mut rng = ctx.rng(case);
        let mut lo = LibOpts::default();
        lo.n_ifaces = rng.range(1, 4);
        lo.n_comps = rng.range(1, 3);
        lo.iface.max_types = rng.range(1, 4);
        lo.iface.depth = rng.range(1, 3);
        let Ok(lib) = witgen::gen_library(&mut rng, &lo) else {
            ctx.count("gen-fail");
            continue;
        };
        for ci in 0..lib.comps.len() {
            check_component(ctx, case, &lib, ci);
            ctx.count("components");
            let w = &lib.comps[ci].world;
            ctx.shape_str(&witgen::print_world_pkg(w).chars().filter(|c| !c.is_ascii_digit()).collect::<String>());
        }
        if ctx.samples.len() < 2 {
            ctx.sample(json!({"case": case, "world": witgen::print_world_pkg(&lib.comps[0].world)}));
        }
    }
}
