//! C10 — plugging satisfies every matchable socket import and re-exports the socket.
//!
//! Monitor: a plug model computed from the generator's knowledge of socket imports and plug
//! exports (names, versions, signatures) predicts the outcome of `plug()`; the graph is queried
//! afterwards; the encoding is validated (V1) and its wiring decoded (D1, via C02's comparison).

use crate::compose::sort_of;
use crate::ctx::Ctx;
use crate::decode::validate;
use crate::props::c02::{compare, Expect};
use crate::props::c15::{model_compatible, model_track};
use crate::util::{catch, normalize_msg, Rng};
use crate::witgen::{self, Func, Iface, LibOpts, Names, Pkg, Ty, WorldItem, WorldModel};
use serde_json::json;
use std::collections::BTreeMap;
use wac_graph::{plug, CompositionGraph, EncodeOptions, NodeId, NodeKind, PlugError};
use wac_types::Package;

struct Comp {
    name: String,
    world: WorldModel,
    bytes: Vec<u8>,
}

fn iface_of<'a>(pkgs: &'a [Pkg], id: &str) -> Option<&'a Iface> {
    witgen::find_iface(pkgs, id)
}

/// Does interface `e` offer everything interface `s` declares (same names, same definitions)?
fn iface_subsumes(pkgs: &[Pkg], e: &str, s: &str) -> bool {
    if e == s {
        return true;
    }
    let (Some(ie), Some(is)) = (iface_of(pkgs, e), iface_of(pkgs, s)) else { return false };
    is.funcs.iter().all(|f| ie.funcs.contains(f)) && is.types.iter().all(|t| ie.types.contains(t)) && is.uses.iter().all(|u| {
        ie.uses.iter().any(|v| v.name == u.name && v.as_name == u.as_name)
    })
}

fn item_compatible(pkgs: &[Pkg], export: &WorldItem, import: &WorldItem) -> bool {
    match (export, import) {
        (WorldItem::Iface { id: e }, WorldItem::Iface { id: s }) => iface_subsumes(pkgs, e, s),
        (WorldItem::Func { func: f, .. }, WorldItem::Func { func: g, .. }) => f.params == g.params && f.result == g.result,
        _ => false,
    }
}

#[derive(Debug, PartialEq, Eq, Clone)]
enum Expected {
    /// socket import name -> (plug index, plug export name)
    Ok(BTreeMap<String, (usize, String)>),
    Ambiguous(String),
    NoPlug,
}

/// The plug model: which plug export supplies which socket import.
fn model(pkgs: &[Pkg], socket: &WorldModel, plugs: &[&WorldModel]) -> Expected {
    let mut offers: BTreeMap<String, Vec<(usize, String)>> = BTreeMap::new();
    for (pi, p) in plugs.iter().enumerate() {
        for e in &p.exports {
            let en = e.extern_name();
            // exact name first, else the first socket import on the same semver track
            let target = socket
                .imports
                .iter()
                .find(|s| s.extern_name() == en)
                .or_else(|| socket.imports.iter().find(|s| model_compatible(en, s.extern_name())));
            if let Some(s) = target {
                if item_compatible(pkgs, e, s) {
                    offers.entry(s.extern_name().to_string()).or_default().push((pi, en.to_string()));
                }
            }
        }
    }
    if let Some((s, _)) = offers.iter().find(|(_, v)| v.len() > 1) {
        return Expected::Ambiguous(s.clone());
    }
    if offers.is_empty() {
        return Expected::NoPlug;
    }
    Expected::Ok(offers.into_iter().map(|(k, v)| (k, v[0].clone())).collect())
}

fn build(pkg_texts: &[(String, String)], name: &str, imports: Vec<WorldItem>, exports: Vec<WorldItem>) -> Option<Comp> {
    let mut world = WorldModel { pkg: name.to_string(), world: "w".into(), imports, exports };
    let text = witgen::print_world_pkg(&world);
    let r = catch(|| witgen::build_component(pkg_texts, &text, "w")).ok()?;
    let bytes = r.ok()?;
    // what the binary really imports/exports (independent decoder): wit-component drops imports
    // of interfaces nothing is used from, and adds imports of interfaces whose types are used
    let d = crate::decode::decode_any(&bytes).ok()?;
    let names = d.import_names();
    world.imports.retain(|i| names.iter().any(|n| n == i.extern_name()));
    for n in &names {
        if !world.imports.iter().any(|i| i.extern_name() == n) && n.contains('/') {
            world.imports.push(WorldItem::Iface { id: n.clone() });
        }
    }
    // keep the binary's import order
    world.imports.sort_by_key(|i| names.iter().position(|n| n == i.extern_name()).unwrap_or(usize::MAX));
    let enames = d.export_names();
    world.exports.retain(|e| enames.iter().any(|n| n == e.extern_name()));
    world.exports.sort_by_key(|e| enames.iter().position(|n| n == e.extern_name()).unwrap_or(usize::MAX));
    Some(Comp { name: name.to_string(), world, bytes })
}

fn gen_func(rng: &mut Rng, name: &str, variant: usize) -> Func {
    // `variant` selects one of a few fixed signatures so that same-named functions can be made
    // compatible (same variant) or incompatible (different variant) on purpose
    let sigs: [(Vec<(&str, Ty)>, Option<Ty>); 4] = [
        (vec![], None),
        (vec![("a", Ty::Prim("u8"))], Some(Ty::Prim("string"))),
        (vec![("a", Ty::Prim("string"))], Some(Ty::Prim("string"))),
        (vec![("a", Ty::Prim("u8")), ("b", Ty::List(Box::new(Ty::Prim("u32"))))], None),
    ];
    let _ = rng;
    let (p, r) = &sigs[variant % sigs.len()];
    Func { name: name.to_string(), params: p.iter().map(|(n, t)| (n.to_string(), t.clone())).collect(), result: r.clone() }
}

fn distinct_tracks(ids: &[String]) -> Vec<String> {
    // keep at most one interface id per semver track (and per exact name)
    let mut out: Vec<String> = Vec::new();
    for id in ids {
        if !out.iter().any(|o| o == id || model_compatible(o, id)) {
            out.push(id.clone());
        }
    }
    out
}


fn check_plug(ctx: &mut Ctx, case: u64, pkgs: &[Pkg], pkg_texts: &[(String, String)], socket: &Comp, plugs: &[Comp]) {
        let plug_worlds: Vec<&WorldModel> = plugs.iter().map(|p| &p.world).collect();
        let want = model(pkgs, &socket.world, &plug_worlds);
        let input = json!({
            "library": pkg_texts.iter().map(|t| t.1.clone()).collect::<Vec<_>>(),
            "socket": witgen::print_world_pkg(&socket.world),
            "plugs": plugs.iter().map(|p| witgen::print_world_pkg(&p.world)).collect::<Vec<_>>(),
        });
        // run the real thing
        let mut graph = CompositionGraph::new();
        let sp = Package::from_bytes(&socket.name, None, socket.bytes.clone(), graph.types_mut());
        let Ok(sp) = sp else {
            ctx.count("package-load-fail");
            return;
        };
        let sid = graph.register_package(sp).unwrap();
        let mut pids = Vec::new();
        let mut load_ok = true;
        for p in plugs {
            match Package::from_bytes(&p.name, None, p.bytes.clone(), graph.types_mut()) {
                Ok(pk) => pids.push(graph.register_package(pk).unwrap()),
                Err(_) => load_ok = false,
            }
        }
        if !load_ok {
            ctx.count("package-load-fail");
            return;
        }
        if ctx.only_case.is_some() {
            // replay/debug aid: the checker's verdict for every same-named (plug export, socket import) pair
            let sw = &graph.types()[graph[sid].ty()];
            for (pi, pid) in pids.iter().enumerate() {
                for (en, ek) in &graph.types()[graph[*pid].ty()].exports {
                    if let Some(ik) = sw.imports.get(en) {
                        let mut cache = Default::default();
                        let mut c = wac_types::SubtypeChecker::new(&mut cache);
                        match c.is_subtype(*ek, graph.types(), *ik, graph.types()) {
                            Ok(()) => println!("plug{pi}.{en} <: socket.{en}: ok"),
                            Err(e) => println!("plug{pi}.{en} <: socket.{en}: {e:#}"),
                        }
                    }
                }
            }
        }
        ctx.eval();
        let r = catch(|| plug(&mut graph, pids.clone(), sid));
        let r = match r {
            Ok(r) => r,
            Err(p) => {
                ctx.violation(case, &format!("C10:plug-panic:{}", normalize_msg(&p.message)), p.to_string(), input.clone());
                return;
            }
        };
        let got_class = match &r {
            Ok(()) => "ok".to_string(),
            Err(PlugError::NoPlugHappened) => "no-plug".to_string(),
            Err(PlugError::GraphError { source }) => format!("graph-error:{}", normalize_msg(&source.to_string())),
        };
        ctx.count(&format!("plug:{}", got_class.split(':').next().unwrap()));
        match (&want, &r) {
            (Expected::NoPlug, Err(PlugError::NoPlugHappened)) => {}
            (Expected::Ambiguous(_), Err(PlugError::GraphError { .. })) => {}
            (Expected::Ok(map), Ok(())) => {
                // graph queries
                let insts: Vec<NodeId> = graph.node_ids().filter(|n| matches!(graph[*n].kind(), NodeKind::Instantiation(_))).collect();
                let socket_insts: Vec<NodeId> = insts.iter().copied().filter(|n| graph[*n].package() == Some(sid)).collect();
                if socket_insts.len() != 1 {
                    ctx.violation(case, "C10:socket-instantiation-count", format!("{} socket instantiations", socket_insts.len()), input.clone());
                    return;
                }
                let si = socket_insts[0];
                let contributing: std::collections::BTreeSet<usize> = map.values().map(|(p, _)| *p).collect();
                for (pi, pid) in pids.iter().enumerate() {
                    let n = insts.iter().filter(|n| graph[**n].package() == Some(*pid)).count();
                    let want_n = if contributing.contains(&pi) { 1 } else { 0 };
                    if n != want_n {
                        let sig = if want_n == 0 { "C10:idle-plug-instantiated" } else { "C10:plug-instantiation-count" };
                        ctx.violation(case, sig, format!("plug {pi} is instantiated {n} times, expected {want_n}"), input.clone());
                    }
                }
                let mut got_args: BTreeMap<String, (usize, String)> = BTreeMap::new();
                let mut bad = false;
                for (arg, src) in graph.get_instantiation_arguments(si) {
                    match graph.get_alias_source(src) {
                        Some((inst, export)) => {
                            let pi = pids.iter().position(|p| graph[inst].package() == Some(*p));
                            match pi {
                                Some(pi) => {
                                    got_args.insert(arg.to_string(), (pi, export.to_string()));
                                }
                                None => bad = true,
                            }
                        }
                        None => bad = true,
                    }
                }
                if bad || got_args != *map {
                    ctx.violation(case, "C10:wrong-supplier", format!("socket arguments {got_args:?}, model expects {map:?}"), input.clone());
                }
                for e in &socket.world.exports {
                    let name = e.extern_name();
                    let ok = graph
                        .get_export(name)
                        .and_then(|n| graph.get_alias_source(n))
                        .map(|(inst, export)| inst == si && export == name)
                        .unwrap_or(false);
                    if !ok {
                        ctx.violation(case, "C10:socket-export-not-re-exported", format!("socket export `{name}` is not exported from the result as an alias of the socket instance"), input.clone());
                    }
                }
                // encoding: valid, and wired as the graph says
                match catch(|| graph.encode(EncodeOptions { define_components: true, validate: false, processor: None })) {
                    Ok(Ok(bytes)) => {
                        if let Err(msg) = validate(&bytes) {
                            // recorded finding: the re-exported socket interface mentions a type of an
                            // interface that a plug supplies; that type has no name at the root
                            let plugged_dep = socket.world.exports.iter().any(|e| {
                                witgen::use_closure(pkgs, e.extern_name()).iter().any(|d| map.keys().any(|k| k == d || model_compatible(k, d)))
                            });
                            let sig = if msg.contains("instance not valid to be used as export") && plugged_dep {
                                "C10:invalid-output:socket-export-uses-type-of-plugged-import".to_string()
                            } else {
                                format!("C10:invalid-output:{}", normalize_msg(&msg))
                            };
                            ctx.violation(case, &sig, format!("a successful plug encodes to an invalid component: {msg}"), input.clone());
                        } else {
                            ctx.count("valid-outputs");
                            let exported: Vec<(String, NodeId)> = socket.world.exports.iter().filter_map(|e| graph.get_export(e.extern_name()).map(|n| (e.extern_name().to_string(), n))).collect();
                            let ex = Expect { graph: &graph, exported: &exported };
                            for (sig, detail) in compare(&ex, &bytes, true) {
                                if sig == "wiring-differs-only-by-merged-import-names" {
                                    ctx.count("wiring:merged-import-names(C02 finding)");
                                } else {
                                    ctx.violation(case, &format!("C10:encoding-differs-from-graph:{sig}"), detail, input.clone());
                                }
                            }
                            // unmatched socket imports stay imports of the result
                            if let Ok(d) = crate::decode::decode(&bytes) {
                                let names = d.import_names();
                                for s in &socket.world.imports {
                                    let sn = s.extern_name();
                                    let present = names.iter().any(|n| n == sn || model_compatible(n, sn));
                                    if !map.contains_key(sn) && !present {
                                        ctx.violation(case, "C10:unmatched-socket-import-lost", format!("socket import `{sn}` was not plugged but is not an import of the result ({names:?})"), input.clone());
                                    }
                                    let still_needed = plugs.iter().enumerate().any(|(pi, p)| contributing.contains(&pi) && p.world.imports.iter().any(|i| i.extern_name() == sn || model_compatible(i.extern_name(), sn)));
                                    if map.contains_key(sn) && present && !still_needed {
                                        // may legitimately be a `use` dependency of another import
                                        let dep = names.iter().any(|n| witgen::use_closure(pkgs, n).iter().any(|d| d == sn || model_compatible(d, sn)));
                                        if !dep {
                                            ctx.violation(case, "C10:plugged-import-still-imported", format!("socket import `{sn}` was plugged but the result still imports it ({names:?})"), input.clone());
                                        }
                                    }
                                }
                            }
                        }
                    }
                    Ok(Err(e)) => ctx.violation(case, &format!("C10:encode-error-after-plug:{}", normalize_msg(&e.to_string())), format!("{e:?}"), input.clone()),
                    Err(p) => ctx.violation(case, &format!("C10:encode-panic-after-plug:{}", normalize_msg(&p.message)), p.to_string(), input.clone()),
                }
                let semver_matches = map.iter().filter(|(s, (_, e))| *s != e).count();
                if semver_matches > 0 {
                    ctx.count("plug:ok-with-semver-fallback");
                }
                ctx.shape_str(&format!("{:?}|{}|{}", map.iter().map(|(s, (p, e))| (model_track(s).is_some(), *p, s == e)).collect::<Vec<_>>(), plugs.len(), socket.world.imports.len()));
                if ctx.samples.len() < 2 {
                    ctx.sample(json!({"case": case, "socket": witgen::print_world_pkg(&socket.world), "plugs": plugs.iter().map(|p| witgen::print_world_pkg(&p.world)).collect::<Vec<_>>(), "suppliers": format!("{map:?}")}));
                }
            }
            (w, _) => {
                let want_class = match w {
                    Expected::Ok(_) => "ok",
                    Expected::Ambiguous(_) => "two-offers-for-one-import",
                    Expected::NoPlug => "no-plug",
                };
                ctx.violation(case, &format!("C10:outcome:{}-vs-model:{want_class}", got_class.split(':').next().unwrap()), format!("plug() -> {got_class}, the plug model expects {w:?}"), input.clone());
            }
        }
}

/// Directed witness of the recorded finding: the socket exports an interface that uses a type of
/// an import which a plug supplies.
fn run_witness(ctx: &mut Ctx) {
    let case = crate::witness::WITNESS_BASE;
    if !ctx.mine(case) {
        return;
    }
    ctx.begin(case);
    let pkg = crate::witness::model_of_pub(crate::witness::LIB_VAL);
    let pkgs = vec![pkg];
    let pkg_texts = vec![("lib0".to_string(), crate::witness::LIB_VAL.to_string())];
    let socket = build(&pkg_texts, "test:socket", vec![WorldItem::Iface { id: "ns:lib/i0".into() }], vec![WorldItem::Iface { id: "ns:lib/i1".into() }]);
    let plug0 = build(&pkg_texts, "test:plug0", vec![], vec![WorldItem::Iface { id: "ns:lib/i0".into() }]);
    if let (Some(socket), Some(plug0)) = (socket, plug0) {
        ctx.count("witness-run");
        check_plug(ctx, case, &pkgs, &pkg_texts, &socket, &[plug0]);
    } else {
        ctx.count("witness-build-failed");
    }
}

/// Directed workload (WAT): a socket that imports TWO versions of one interface on the same semver
/// track (wit-component cannot build such a component: it merges the imports), plugs exporting one
/// of the versions or both. An export feeds the import of the same name; a compatible name is only
/// the fallback.
fn run_two_versions(ctx: &mut Ctx) {
    let imp = |v: &str| match v {
        "1.0.0" => "(import \"a:b/c@1.0.0\" (instance (export \"f\" (func))))".to_string(),
        _ => "(import \"a:b/c@1.1.0\" (instance (export \"f\" (func)) (export \"g\" (func))))".to_string(),
    };
    let plug_wat = |versions: &[&str]| {
        let mut w = String::from("(component (import \"host\" (func $h))");
        for (i, v) in versions.iter().enumerate() {
            if *v == "1.0.0" {
                w.push_str(&format!(" (instance $i{i} (export \"f\" (func $h))) (export \"a:b/c@1.0.0\" (instance $i{i}))"));
            } else {
                w.push_str(&format!(" (instance $i{i} (export \"f\" (func $h)) (export \"g\" (func $h))) (export \"a:b/c@1.1.0\" (instance $i{i}))"));
            }
        }
        w.push(')');
        w
    };
    let socket_orders: [&[&str]; 3] = [&["1.0.0", "1.1.0"], &["1.1.0", "1.0.0"], &["1.1.0"]];
    let plug_sets: [&[&[&str]]; 6] = [&[&["1.0.0"]], &[&["1.1.0"]], &[&["1.0.0"], &["1.1.0"]], &[&["1.1.0"], &["1.0.0"]], &[&["1.0.0", "1.1.0"]], &[&["1.1.0", "1.0.0"]]];
    let mut k = 0u64;
    for so in socket_orders {
        for ps in plug_sets {
            k += 1;
            let case = crate::witness::WITNESS_BASE + 500 + k;
            if !ctx.mine(case) {
                continue;
            }
            ctx.begin(case);
            let socket_wat = format!("(component {} )", so.iter().map(|v| imp(v)).collect::<Vec<_>>().join(" "));
            let plug_wats: Vec<String> = ps.iter().map(|p| plug_wat(p)).collect();
            let input = json!({"socket": socket_wat, "plugs": plug_wats});
            // expected: exact name first; otherwise the first socket import on the same track
            let mut want: BTreeMap<String, usize> = BTreeMap::new();
            let mut ambiguous = false;
            for (pi, p) in ps.iter().enumerate() {
                for v in p.iter() {
                    let name = format!("a:b/c@{v}");
                    let target = if so.contains(v) { Some(name.clone()) } else { so.first().map(|x| format!("a:b/c@{x}")) };
                    if let Some(t) = target {
                        // a 1.0.0 export {f} cannot satisfy a 1.1.0 import {f, g}
                        if !so.contains(v) && *v == "1.0.0" {
                            continue;
                        }
                        if want.insert(t, pi).is_some() {
                            ambiguous = true;
                        }
                    }
                }
            }
            ctx.eval();
            let r = catch(|| {
                let mut g = CompositionGraph::new();
                let sp = Package::from_bytes("test:socket", None, wat::parse_str(&socket_wat).map_err(|e| e.to_string())?, g.types_mut()).map_err(|e| format!("{e:#}"))?;
                let sid = g.register_package(sp).map_err(|e| e.to_string())?;
                let mut pids = Vec::new();
                for (i, w) in plug_wats.iter().enumerate() {
                    let pp = Package::from_bytes(&format!("test:plug{i}"), None, wat::parse_str(w).map_err(|e| e.to_string())?, g.types_mut()).map_err(|e| format!("{e:#}"))?;
                    pids.push(g.register_package(pp).map_err(|e| e.to_string())?);
                }
                let res = plug(&mut g, pids.clone(), sid).map_err(|e| format!("plug: {e}"));
                Ok::<_, String>((g, sid, pids, res))
            });
            let (g, sid, pids, res) = match r {
                Ok(Ok(x)) => x,
                Ok(Err(e)) => {
                    ctx.count("harness:two-versions-setup-failed");
                    ctx.note("last_two_versions_error", json!(e));
                    continue;
                }
                Err(p) => {
                    ctx.violation(case, &format!("C10:plug-panic:{}", normalize_msg(&p.message)), p.to_string(), input);
                    continue;
                }
            };
            if ambiguous {
                ctx.count("two-versions:ambiguous(skipped)");
                continue;
            }
            if want.is_empty() {
                // nothing can be supplied: plug() must say so
                if res.is_ok() {
                    ctx.violation(case, "C10:two-versions:plug-succeeds-with-nothing-to-supply", format!("socket imports {so:?}, plugs export {ps:?}"), input);
                } else {
                    ctx.count("two-versions:no-plug-as-expected");
                }
                continue;
            }
            if let Err(e) = &res {
                ctx.violation(case, "C10:two-versions:plug-fails", format!("socket imports {so:?}, plugs export {ps:?}: {e}"), input);
                continue;
            }
            let Some(si) = g.node_ids().find(|n| matches!(g[*n].kind(), NodeKind::Instantiation(_)) && g[*n].package() == Some(sid)) else {
                ctx.violation(case, "C10:socket-instantiation-count", "no socket instantiation".into(), input);
                continue;
            };
            let mut got: BTreeMap<String, usize> = BTreeMap::new();
            for (arg, src) in g.get_instantiation_arguments(si) {
                if let Some((inst, _)) = g.get_alias_source(src) {
                    if let Some(pi) = pids.iter().position(|p| g[inst].package() == Some(*p)) {
                        got.insert(arg.to_string(), pi);
                    }
                }
            }
            if got != want {
                ctx.violation(case, "C10:two-versions:wrong-supplier", format!("socket imports {so:?}, plugs export {ps:?}: arguments {got:?}, expected {want:?} (an export feeds the import of the same name; a compatible name is the fallback)"), input);
            } else {
                ctx.count("two-versions:wiring-as-expected");
            }
        }
    }
}

pub fn run(ctx: &mut Ctx) {
    run_witness(ctx);
    run_two_versions(ctx);
    let total = ctx.n(20_000, 6_000_000);
    for case in ctx.cases(total) {
        if ctx.out_of_budget() {
            ctx.count("budget-stop");
            break;
        }
        ctx.begin(case);
        let mut rng = ctx.rng(case);
        let mut names = Names::new();
        let mut lo = LibOpts::default();
        lo.n_ifaces = rng.range(2, 4);
        lo.versions = true;
        lo.iface.resources = false;
        lo.iface.max_types = 2;
        let pkgs = witgen::gen_pkgs(&mut rng, &lo, &mut names);
        let pkg_texts: Vec<(String, String)> = pkgs.iter().enumerate().map(|(i, p)| (format!("lib{i}"), witgen::print_pkg(p))).collect();
        let all_ids: Vec<String> = pkgs.iter().flat_map(|p| p.ifaces.iter().map(move |i| p.iface_id(&i.name))).collect();
        // socket
        let mut shuffled = all_ids.clone();
        rng.shuffle(&mut shuffled);
        // one socket in four may import two versions of one interface on the same track: an export
        // of the exact name must then win over the compatible one
        let picked = &shuffled[..rng.range(1, shuffled.len().min(4))];
        let same_track_twice = rng.chance(1, 4);
        let socket_ifaces = if same_track_twice { picked.to_vec() } else { distinct_tracks(picked) };
        if same_track_twice && socket_ifaces.iter().enumerate().any(|(i, a)| socket_ifaces[..i].iter().any(|b| model_compatible(a, b))) {
            ctx.count("sockets-importing-two-versions-of-one-track");
        }
        let mut s_imports: Vec<WorldItem> = socket_ifaces.iter().map(|id| WorldItem::Iface { id: id.clone() }).collect();
        let fnames = ["fa", "fb", "fc"];
        let mut socket_fn_variant: BTreeMap<&str, usize> = BTreeMap::new();
        for f in fnames {
            if rng.chance(1, 2) {
                let v = rng.below(4);
                socket_fn_variant.insert(f, v);
                s_imports.push(WorldItem::Func { name: f.to_string(), func: gen_func(&mut rng, f, v) });
            }
        }
        rng.shuffle(&mut s_imports);
        let mut s_exports: Vec<WorldItem> = Vec::new();
        for id in &all_ids {
            if rng.chance(1, 4) && !s_imports.iter().any(|i| i.extern_name() == id) && !s_exports.iter().any(|e: &WorldItem| model_compatible(e.extern_name(), id)) {
                s_exports.push(WorldItem::Iface { id: id.clone() });
            }
        }
        if rng.chance(1, 2) {
            let v = rng.below(4);
            s_exports.push(WorldItem::Func { name: "sx".into(), func: gen_func(&mut rng, "sx", v) });
        }
        let Some(socket) = build(&pkg_texts, "test:socket", s_imports, s_exports) else {
            ctx.count("gen-fail");
            continue;
        };
        // plugs
        let n_plugs = rng.range(1, 4);
        let mut plugs: Vec<Comp> = Vec::new();
        for pi in 0..n_plugs {
            let mut exports: Vec<WorldItem> = Vec::new();
            for s in &socket.world.imports {
                match s {
                    WorldItem::Iface { id } => match rng.below(14) {
                        0 | 1 | 2 => exports.push(WorldItem::Iface { id: id.clone() }),
                        3 | 4 => {
                            // another version on the same track, if the library has one
                            if let Some(other) = all_ids.iter().find(|o| *o != id && model_compatible(o, id)) {
                                exports.push(WorldItem::Iface { id: other.clone() });
                            }
                        }
                        _ => {}
                    },
                    WorldItem::Func { name, .. } => match rng.below(10) {
                        0 | 1 => exports.push(WorldItem::Func { name: name.clone(), func: gen_func(&mut rng, name, socket_fn_variant[name.as_str()]) }),
                        2 => exports.push(WorldItem::Func { name: name.clone(), func: gen_func(&mut rng, name, socket_fn_variant[name.as_str()] + 1) }),
                        _ => {}
                    },
                    _ => {}
                }
            }
            if rng.chance(1, 3) {
                // something the socket does not import
                if let Some(id) = all_ids.iter().find(|id| !socket.world.imports.iter().any(|s| s.extern_name() == *id || model_compatible(s.extern_name(), id))) {
                    if !exports.iter().any(|e| e.extern_name() == id) {
                        exports.push(WorldItem::Iface { id: id.clone() });
                    }
                }
                let v = rng.below(4);
                exports.push(WorldItem::Func { name: format!("px{pi}"), func: gen_func(&mut rng, "px", v) });
            }
            // de-duplicate names; wit-parser rejects exporting two versions that use each other in odd ways -> retry smaller
            let mut seen: Vec<String> = Vec::new();
            exports.retain(|e| {
                let n = e.extern_name().to_string();
                if seen.contains(&n) { false } else { seen.push(n); true }
            });
            if exports.is_empty() {
                exports.push(WorldItem::Func { name: format!("px{pi}"), func: gen_func(&mut rng, "px", 0) });
            }
            let mut imports: Vec<WorldItem> = Vec::new();
            if rng.chance(1, 3) {
                let id = rng.pick(&all_ids).clone();
                if !exports.iter().any(|e| e.extern_name() == id || model_compatible(e.extern_name(), &id)) {
                    imports.push(WorldItem::Iface { id });
                }
            }
            if rng.chance(1, 4) {
                imports.push(WorldItem::Func { name: "pi".into(), func: gen_func(&mut rng, "pi", 1) });
            }
            match build(&pkg_texts, &format!("test:plug{pi}"), imports, exports.clone()) {
                Some(c) => plugs.push(c),
                None => {
                    // fall back to a single harmless export
                    if let Some(c) = build(&pkg_texts, &format!("test:plug{pi}"), vec![], vec![WorldItem::Func { name: format!("px{pi}"), func: gen_func(&mut rng, "px", 0) }]) {
                        plugs.push(c);
                    }
                }
            }
        }
        if plugs.is_empty() {
            ctx.count("gen-fail");
            continue;
        }
        check_plug(ctx, case, &pkgs, &pkg_texts, &socket, &plugs);
        let _ = sort_of;
    }
}
