//! C06 — the graph API stays consistent over every operation history.
//!
//! Monitors: (1) reference model M1 of the public `CompositionGraph` API, stepped in lock-step
//! with the real graph and compared after every operation (return value / error variant and a
//! full query snapshot); (2) the guarded invariant hook `verif_invariants()` after every step;
//! (3) no panic for calls with live identifiers; (4) an encode probe.

use crate::ctx::Ctx;
use crate::decode::validate;
use crate::util::{catch, normalize_msg, short_location, Rng};
use crate::witgen::{self, LibOpts, Library};
use serde_json::{json, Value};
use std::collections::{BTreeMap, BTreeSet};
use wac_graph::{
    AliasError, CompositionGraph, DefineTypeError, EncodeError, EncodeOptions, ExportError, ImportError,
    InstantiationArgumentError, NodeId, NodeKind, PackageId, RegisterPackageError, UnexportError,
};
use wac_types::{DefinedType, FuncType, ItemKind, Package, PrimitiveType, Record, Resource, Type, ValueType};

#[derive(Clone, Debug, PartialEq)]
enum MKind {
    Def { ty: usize },
    Import { name: String },
    Inst { pkg: usize },
    Alias { src: NodeId, export: String },
}

#[derive(Clone, Debug)]
struct MNode {
    kind: MKind,
    pkg: Option<usize>,
    name: Option<String>,
    /// names this node is exported under, oldest first
    exports: Vec<String>,
    /// type key (for argument compatibility bookkeeping) and sort
    key: String,
    is_instance: bool,
}

#[derive(Clone, Debug, Default)]
struct Model {
    nodes: BTreeMap<NodeId, MNode>,
    /// (source, instantiation, argument name)
    args: Vec<(NodeId, NodeId, String)>,
    /// package handle -> (comp index, live)
    pkgs: Vec<(usize, bool)>,
}

/// The types that histories may define: index -> (Type, direct dependencies, is_resource)
struct TypeUniverse {
    types: Vec<(Type, Vec<usize>, bool)>,
}

fn build_types(g: &mut CompositionGraph) -> TypeUniverse {
    let t = g.types_mut();
    let mut fields = indexmap::IndexMap::new();
    fields.insert("a".to_string(), ValueType::Primitive(PrimitiveType::U8));
    let rec = t.add_defined_type(DefinedType::Record(Record { fields }));
    let list = t.add_defined_type(DefinedType::List(ValueType::Defined(rec)));
    let opt = t.add_defined_type(DefinedType::Option(ValueType::Defined(list)));
    let pair = t.add_defined_type(DefinedType::Tuple(vec![ValueType::Defined(rec), ValueType::Defined(list)]));
    let alias = t.add_defined_type(DefinedType::Alias(ValueType::Defined(rec)));
    let prim = t.add_defined_type(DefinedType::Alias(ValueType::Primitive(PrimitiveType::Bool)));
    let mut params = indexmap::IndexMap::new();
    params.insert("p".to_string(), ValueType::Defined(rec));
    let func = t.add_func_type(FuncType { params, result: Some(ValueType::Defined(list)), is_async: false });
    let res = t.add_resource(Resource { name: "r".to_string(), alias: None });
    let v = |id| Type::Value(ValueType::Defined(id));
    TypeUniverse {
        types: vec![
            (v(rec), vec![], false),         // 0
            (v(list), vec![0], false),       // 1
            (v(opt), vec![1, 0], false),     // 2: depends on the record through the list, defined or not
            (v(pair), vec![0, 1], false),    // 3
            (v(alias), vec![], false),       // 4: aliases record no dependency
            (v(prim), vec![], false),        // 5
            (Type::Func(func), vec![0, 1], false), // 6
            (Type::Resource(res), vec![], true),   // 7
        ],
    }
}

const GOOD_NAMES: [&str; 8] = ["foo", "bar", "baz-qux", "x1", "ns:pkg/iface", "ns:pkg/iface@1.0.0", "a-b-c", "t0"];
const BAD_NAMES: [&str; 4] = ["", "Not Kebab", "9x", "a--b"];
const IMPORT_ONLY_NAMES: [&str; 2] = ["unlocked-dep=<a:b>", "url=<https://example.com>"];

#[derive(Clone)]
struct World {
    lib: std::rc::Rc<Library>,
    g: CompositionGraph,
    m: Model,
    tu: std::rc::Rc<TypeUniverse>,
    /// handle -> real id
    pkg_ids: Vec<PackageId>,
    log: Vec<String>,
}

fn err_name_define(e: &DefineTypeError) -> &'static str {
    match e {
        DefineTypeError::TypeAlreadyDefined => "TypeAlreadyDefined",
        DefineTypeError::CannotDefineResource => "CannotDefineResource",
        DefineTypeError::ExportConflict { .. } => "ExportConflict",
        DefineTypeError::InvalidExternName { .. } => "InvalidExternName",
    }
}

fn err_name_arg(e: &InstantiationArgumentError) -> &'static str {
    match e {
        InstantiationArgumentError::NodeIsNotAnInstantiation { .. } => "NodeIsNotAnInstantiation",
        InstantiationArgumentError::InvalidArgumentName { .. } => "InvalidArgumentName",
        InstantiationArgumentError::ArgumentTypeMismatch { .. } => "ArgumentTypeMismatch",
        InstantiationArgumentError::ArgumentAlreadyPassed { .. } => "ArgumentAlreadyPassed",
    }
}

impl World {
    fn comp_exports(&self, comp: usize) -> Vec<(String, String, bool)> {
        // (export name, type key, is_instance)
        self.lib.comps[comp]
            .world
            .exports
            .iter()
            .map(|e| match e {
                witgen::WorldItem::Iface { id } => (id.clone(), format!("iface:{id}"), true),
                witgen::WorldItem::Func { name, func } => (name.clone(), format!("func:{}", witgen::func_sig(func)), false),
                witgen::WorldItem::Inline { name, .. } => (name.clone(), format!("inline:{}:{name}", self.lib.comps[comp].name), true),
            })
            .collect()
    }

    /// Import names of a component in the order wac sees them (read from the real package type;
    /// names only) with the model's type key for those that the world model declares.
    fn comp_import_names(&self, pkg: usize) -> Vec<String> {
        let id = self.pkg_ids[pkg];
        self.g.types()[self.g[id].ty()].imports.keys().cloned().collect()
    }

    fn import_key(&self, comp: usize, name: &str) -> String {
        for i in &self.lib.comps[comp].world.imports {
            match i {
                witgen::WorldItem::Iface { id } if id == name => return format!("iface:{id}"),
                witgen::WorldItem::Func { name: n, func } if n == name => return format!("func:{}", witgen::func_sig(func)),
                witgen::WorldItem::Inline { name: n, .. } if n == name => return format!("inline:{}:{n}", self.lib.comps[comp].name),
                _ => {}
            }
        }
        format!("iface:{name}") // an interface imported only because another one uses it
    }

    /// Removes a node and everything the documentation says goes with it; returns removed ids.
    fn model_remove(&mut self, node: NodeId, removed: &mut Vec<NodeId>) {
        if !self.m.nodes.contains_key(&node) {
            return;
        }
        // dependants: aliases of this node, definitions depending on this definition
        let mut dependants: Vec<NodeId> = Vec::new();
        for (id, n) in &self.m.nodes {
            match &n.kind {
                MKind::Alias { src, .. } if *src == node => dependants.push(*id),
                MKind::Def { ty } => {
                    if let Some(MNode { kind: MKind::Def { ty: base }, .. }) = self.m.nodes.get(&node) {
                        if self.tu.types[*ty].1.contains(base) && *id != node {
                            dependants.push(*id);
                        }
                    }
                }
                _ => {}
            }
        }
        for d in dependants {
            self.model_remove(d, removed);
        }
        self.m.nodes.remove(&node);
        self.m.args.retain(|(s, t, _)| *s != node && *t != node);
        removed.push(node);
    }

    fn snapshot_model(&self) -> Value {
        let mut nodes = Vec::new();
        for (id, n) in &self.m.nodes {
            let kind = match &n.kind {
                MKind::Def { .. } => "definition".to_string(),
                MKind::Import { name } => format!("import:{name}"),
                MKind::Inst { .. } => "instantiation".to_string(),
                MKind::Alias { src, export } => format!("alias:{src}:{export}"),
            };
            let mut args: Vec<String> = self.m.args.iter().filter(|(_, t, _)| t == id).map(|(s, _, a)| format!("{a}<-{s}")).collect();
            args.sort();
            nodes.push(json!({
                "id": id.to_string(), "kind": kind, "pkg": n.pkg.map(|p| self.lib.comps[self.m.pkgs[p].0].name.clone()),
                "name": n.name, "export": n.exports.last(), "args": args,
            }));
        }
        let mut exports: BTreeMap<String, String> = BTreeMap::new();
        for (id, n) in &self.m.nodes {
            for e in &n.exports {
                exports.insert(e.clone(), id.to_string());
            }
        }
        let mut imports: Vec<String> = Vec::new();
        for (id, n) in &self.m.nodes {
            match &n.kind {
                MKind::Import { name } => imports.push(format!("explicit:{name}")),
                MKind::Inst { pkg } => {
                    for a in self.comp_import_names(*pkg) {
                        if !self.m.args.iter().any(|(_, t, an)| t == id && *an == a) {
                            imports.push(format!("implicit:{a}"));
                        }
                    }
                }
                _ => {}
            }
        }
        imports.sort();
        let mut pkgs: Vec<String> = self.m.pkgs.iter().filter(|(_, live)| *live).map(|(c, _)| self.lib.comps[*c].name.clone()).collect();
        pkgs.sort();
        json!({"nodes": nodes, "exports": exports, "imports": imports, "packages": pkgs})
    }

    fn snapshot_real(&self, known_export_names: &BTreeSet<String>) -> Value {
        let g = &self.g;
        let mut nodes = Vec::new();
        let mut ids: Vec<NodeId> = g.node_ids().collect();
        ids.sort();
        for id in ids {
            let n = &g[id];
            let kind = match n.kind() {
                NodeKind::Definition => "definition".to_string(),
                NodeKind::Import(name) => format!("import:{name}"),
                NodeKind::Instantiation(_) => "instantiation".to_string(),
                NodeKind::Alias => match g.get_alias_source(id) {
                    Some((s, e)) => format!("alias:{s}:{e}"),
                    None => "alias:<no source>".to_string(),
                },
            };
            let mut args: Vec<String> = g.get_instantiation_arguments(id).map(|(a, s)| format!("{a}<-{s}")).collect();
            args.sort();
            nodes.push(json!({
                "id": id.to_string(), "kind": kind, "pkg": n.package().map(|p| g[p].name().to_string()),
                "name": n.name(), "export": n.export_name(), "args": args,
            }));
        }
        let mut exports: BTreeMap<String, String> = BTreeMap::new();
        for name in known_export_names {
            if let Some(n) = g.get_export(name) {
                exports.insert(name.clone(), n.to_string());
            }
        }
        let mut imports: Vec<String> = g
            .imports()
            .map(|(n, _, node)| if node.is_some() { format!("explicit:{n}") } else { format!("implicit:{n}") })
            .collect();
        imports.sort();
        let mut pkgs: Vec<String> = g.packages().map(|p| p.name().to_string()).collect();
        pkgs.sort();
        json!({"nodes": nodes, "exports": exports, "imports": imports, "packages": pkgs})
    }
}

#[derive(Clone, Debug)]
enum Op {
    Register(usize),
    Unregister(usize),
    Define(String, usize),
    Import(String, NodeId, String),
    ImportPlain(String),
    Instantiate(usize),
    Alias(NodeId, String),
    Set(NodeId, String, NodeId),
    Unset(NodeId, String, NodeId),
    Export(NodeId, String),
    Unexport(NodeId),
    Name(NodeId, String),
    Remove(NodeId),
}

fn pick_name(rng: &mut Rng) -> String {
    match rng.below(12) {
        0 => rng.pick(&BAD_NAMES).to_string(),
        1 => rng.pick(&IMPORT_ONLY_NAMES).to_string(),
        _ => rng.pick(&GOOD_NAMES).to_string(),
    }
}

fn gen_op(rng: &mut Rng, w: &World) -> Option<Op> {
    let live_pkgs: Vec<usize> = (0..w.m.pkgs.len()).filter(|i| w.m.pkgs[*i].1).collect();
    let nodes: Vec<NodeId> = w.m.nodes.keys().copied().collect();
    let insts: Vec<NodeId> = nodes.iter().copied().filter(|n| matches!(w.m.nodes[n].kind, MKind::Inst { .. })).collect();
    for _ in 0..20 {
        match rng.below(30) {
            0 | 1 => return Some(Op::Register(rng.below(w.lib.comps.len()))),
            2 if !live_pkgs.is_empty() => return Some(Op::Unregister(*rng.pick(&live_pkgs))),
            3 | 4 => return Some(Op::Define(pick_name(rng), rng.below(w.tu.types.len()))),
            5 | 6 if !insts.is_empty() => {
                // explicit import with the kind of some argument
                let i = *rng.pick(&insts);
                if let MKind::Inst { pkg } = w.m.nodes[&i].kind {
                    let names = w.comp_import_names(pkg);
                    if !names.is_empty() {
                        let a = rng.pick(&names).clone();
                        let name = if rng.chance(1, 2) { a.clone() } else { pick_name(rng) };
                        return Some(Op::Import(name, i, a));
                    }
                }
            }
            7 => return Some(Op::ImportPlain(pick_name(rng))),
            8 | 9 | 10 if !live_pkgs.is_empty() => return Some(Op::Instantiate(*rng.pick(&live_pkgs))),
            11 | 12 | 13 if !nodes.is_empty() => {
                let n = *rng.pick(&nodes);
                let export = match &w.m.nodes[&n].kind {
                    MKind::Inst { pkg } if rng.chance(9, 10) => {
                        let ex = w.comp_exports(w.m.pkgs[*pkg].0);
                        if ex.is_empty() {
                            "nope".to_string()
                        } else {
                            rng.pick(&ex).0.clone()
                        }
                    }
                    // an alias of an instance export is an instance itself: alias one of ITS exports
                    // (an alias of an alias), named after what the real type offers
                    MKind::Alias { .. } if w.m.nodes[&n].is_instance && rng.chance(3, 4) => match w.g[n].item_kind() {
                        ItemKind::Instance(id) => {
                            let names: Vec<String> = w.g.types()[id].exports.keys().cloned().collect();
                            if names.is_empty() {
                                "nope".to_string()
                            } else {
                                rng.pick(&names).clone()
                            }
                        }
                        _ => "nope".to_string(),
                    },
                    _ => rng.pick(&["nope", "foo", "ns:lib/i0"]).to_string(),
                };
                return Some(Op::Alias(n, export));
            }
            14..=18 if !insts.is_empty() && !nodes.is_empty() => {
                let i = *rng.pick(&insts);
                let src = *rng.pick(&nodes);
                if let MKind::Inst { pkg } = w.m.nodes[&i].kind {
                    let names = w.comp_import_names(pkg);
                    let arg = if names.is_empty() || rng.chance(1, 12) { "no-such-arg".to_string() } else { rng.pick(&names).clone() };
                    // bias: pick a source whose key matches
                    let key = w.import_key(w.m.pkgs[pkg].0, &arg);
                    let matching: Vec<NodeId> = nodes.iter().copied().filter(|n| w.m.nodes[n].key == key).collect();
                    let src = if !matching.is_empty() && rng.chance(3, 4) { *rng.pick(&matching) } else { src };
                    return Some(Op::Set(i, arg, src));
                }
            }
            19 if !w.m.args.is_empty() => {
                let (s, t, a) = rng.pick(&w.m.args).clone();
                return Some(if rng.chance(4, 5) { Op::Unset(t, a, s) } else { Op::Unset(t, a, *rng.pick(&nodes)) });
            }
            20 if !nodes.is_empty() => {
                let t = *rng.pick(&nodes);
                return Some(Op::Unset(t, "no-such-arg".into(), *rng.pick(&nodes)));
            }
            21 | 22 | 23 if !nodes.is_empty() => return Some(Op::Export(*rng.pick(&nodes), pick_name(rng))),
            24 if !nodes.is_empty() => return Some(Op::Unexport(*rng.pick(&nodes))),
            25 if !nodes.is_empty() => return Some(Op::Name(*rng.pick(&nodes), format!("nm{}", rng.below(5)))),
            26 | 27 | 28 if !nodes.is_empty() => return Some(Op::Remove(*rng.pick(&nodes))),
            _ => {}
        }
    }
    None
}

struct StepResult {
    text: String,
    /// mismatch between model and implementation: (signature suffix, detail)
    mismatch: Option<(String, String)>,
    kind: &'static str,
}

fn valid_name(name: &str) -> bool {
    !BAD_NAMES.contains(&name)
}

fn step(w: &mut World, op: &Op, export_names: &mut BTreeSet<String>) -> Result<StepResult, crate::util::Panicked> {
    let mut mismatch: Option<(String, String)> = None;
    let mut note = |sig: String, detail: String| {
        if mismatch.is_none() {
            mismatch = Some((sig, detail));
        }
    };
    let (text, kind): (String, &'static str) = match op.clone() {
        Op::Register(comp) => {
            let c = &w.lib.comps[comp];
            let bytes = c.bytes.clone();
            let name = c.name.clone();
            let already = w.m.pkgs.iter().any(|(cc, live)| *live && *cc == comp);
            let r = catch(|| {
                let p = Package::from_bytes(&name, None, bytes, w.g.types_mut()).expect("generated component loads");
                w.g.register_package(p)
            })?;
            match r {
                Ok(id) => {
                    if already {
                        note("register:accepted-duplicate".into(), format!("register_package({name}) succeeded although it is registered"));
                    }
                    w.m.pkgs.push((comp, true));
                    w.pkg_ids.push(id);
                    (format!("register {name} -> p{}", w.pkg_ids.len() - 1), "register:ok")
                }
                Err(RegisterPackageError::PackageAlreadyRegistered { .. }) => {
                    if !already {
                        note("register:spurious-already-registered".into(), format!("register_package({name}) -> PackageAlreadyRegistered but it is not registered"));
                    }
                    (format!("register {name} -> PackageAlreadyRegistered"), "register:err")
                }
            }
        }
        Op::Unregister(h) => {
            let id = w.pkg_ids[h];
            catch(|| w.g.unregister_package(id))?;
            let victims: Vec<NodeId> = w.m.nodes.iter().filter(|(_, n)| n.pkg == Some(h)).map(|(i, _)| *i).collect();
            let mut removed = Vec::new();
            for v in victims {
                w.model_remove(v, &mut removed);
            }
            w.m.pkgs[h].1 = false;
            (format!("unregister p{h} (model removes {} nodes)", removed.len()), "unregister")
        }
        Op::Define(name, ti) => {
            let (ty, _, is_res) = (w.tu.types[ti].0, (), w.tu.types[ti].2);
            let defined = w.m.nodes.values().any(|n| matches!(n.kind, MKind::Def { ty } if ty == ti));
            let export_taken = w.m.nodes.values().any(|n| n.exports.contains(&name));
            let want = if defined {
                Err("TypeAlreadyDefined")
            } else if is_res {
                Err("CannotDefineResource")
            } else if export_taken {
                Err("ExportConflict")
            } else if !valid_name(&name) || IMPORT_ONLY_NAMES.contains(&name.as_str()) {
                Err("InvalidExternName")
            } else {
                Ok(())
            };
            let r = catch(|| w.g.define_type(name.clone(), ty))?;
            let got = r.as_ref().map(|_| ()).map_err(err_name_define);
            if got != want {
                // names valid for imports only (hash/url/dep) are accepted by define_type too
                note(format!("define_type:{:?}-vs-{:?}", got, want), format!("define_type({name:?}, t{ti}) -> {got:?}, model expects {want:?}"));
            }
            if let Ok(id) = r {
                export_names.insert(name.clone());
                w.m.nodes.insert(id, MNode { kind: MKind::Def { ty: ti }, pkg: None, name: None, exports: vec![name.clone()], key: format!("type:{ti}"), is_instance: false });
                (format!("n{id} = define_type {name:?} t{ti}"), "define:ok")
            } else {
                (format!("define_type {name:?} t{ti} -> {}", got.unwrap_err()), "define:err")
            }
        }
        Op::Import(name, inst, arg) => {
            let MKind::Inst { pkg } = w.m.nodes[&inst].kind else { unreachable!() };
            let kind: ItemKind = *w.g.types()[w.g[w.pkg_ids[pkg]].ty()].imports.get(&arg).unwrap();
            let key = w.import_key(w.m.pkgs[pkg].0, &arg);
            let exists = w.m.nodes.values().any(|n| matches!(&n.kind, MKind::Import { name: nm } if *nm == name));
            let want = if exists { Err("ImportAlreadyExists") } else if !valid_name(&name) { Err("InvalidImportName") } else { Ok(()) };
            let r = catch(|| w.g.import(name.clone(), kind))?;
            let got = r.as_ref().map(|_| ()).map_err(|e| match e {
                ImportError::ImportAlreadyExists { .. } => "ImportAlreadyExists",
                ImportError::InvalidImportName { .. } => "InvalidImportName",
            });
            if got != want {
                note(format!("import:{:?}-vs-{:?}", got, want), format!("import({name:?}) -> {got:?}, model expects {want:?}"));
            }
            if let Ok(id) = r {
                let is_instance = matches!(kind, ItemKind::Instance(_));
                w.m.nodes.insert(id, MNode { kind: MKind::Import { name: name.clone() }, pkg: None, name: None, exports: vec![], key, is_instance });
                (format!("n{id} = import {name:?} (kind of n{inst}.{arg})"), "import:ok")
            } else {
                (format!("import {name:?} -> {}", got.unwrap_err()), "import:err")
            }
        }
        Op::ImportPlain(name) => {
            // import of a defined value type (kind = type), exercises non-instance imports
            let kind = ItemKind::Type(w.tu.types[5].0);
            let exists = w.m.nodes.values().any(|n| matches!(&n.kind, MKind::Import { name: nm } if *nm == name));
            let want = if exists { Err("ImportAlreadyExists") } else if !valid_name(&name) { Err("InvalidImportName") } else { Ok(()) };
            let r = catch(|| w.g.import(name.clone(), kind))?;
            let got = r.as_ref().map(|_| ()).map_err(|e| match e {
                ImportError::ImportAlreadyExists { .. } => "ImportAlreadyExists",
                ImportError::InvalidImportName { .. } => "InvalidImportName",
            });
            if got != want {
                note(format!("import:{:?}-vs-{:?}", got, want), format!("import({name:?}, type) -> {got:?}, model expects {want:?}"));
            }
            if let Ok(id) = r {
                w.m.nodes.insert(id, MNode { kind: MKind::Import { name: name.clone() }, pkg: None, name: None, exports: vec![], key: "type:5".into(), is_instance: false });
                (format!("n{id} = import {name:?} (type t5)"), "import:ok")
            } else {
                (format!("import {name:?} -> {}", got.unwrap_err()), "import:err")
            }
        }
        Op::Instantiate(h) => {
            let id = catch(|| w.g.instantiate(w.pkg_ids[h]))?;
            let comp = w.m.pkgs[h].0;
            w.m.nodes.insert(id, MNode { kind: MKind::Inst { pkg: h }, pkg: Some(h), name: None, exports: vec![], key: format!("instance-of:{}", w.lib.comps[comp].name), is_instance: true });
            (format!("n{id} = instantiate p{h}"), "instantiate")
        }
        Op::Alias(node, export) => {
            let mn = w.m.nodes[&node].clone();
            // which exports does the model know for this node?
            let known: Option<Vec<(String, String, bool)>> = match &mn.kind {
                MKind::Inst { pkg } => Some(w.comp_exports(w.m.pkgs[*pkg].0)),
                // the exports of an aliased instance are read from its (decoded) type: C08 is the
                // property about that type being right
                MKind::Alias { .. } if mn.is_instance => match w.g[node].item_kind() {
                    ItemKind::Instance(id) => Some(w.g.types()[id].exports.iter().map(|(n, k)| (n.clone(), format!("nested:{}:{n}", mn.key), matches!(k, ItemKind::Instance(_)))).collect()),
                    _ => None,
                },
                _ => None,
            };
            let r = catch(|| w.g.alias_instance_export(node, &export))?;
            let got = r.as_ref().map(|_| ()).map_err(|e| match e {
                AliasError::NodeIsNotAnInstance { .. } => "NodeIsNotAnInstance",
                AliasError::InstanceMissingExport { .. } => "InstanceMissingExport",
            });
            let want: Option<Result<(), &str>> = if !mn.is_instance {
                Some(Err("NodeIsNotAnInstance"))
            } else {
                known.as_ref().map(|k| if k.iter().any(|e| e.0 == export) { Ok(()) } else { Err("InstanceMissingExport") })
            };
            if let Some(want) = want {
                if got != want {
                    note(format!("alias:{:?}-vs-{:?}", got, want), format!("alias_instance_export(n{node}, {export:?}) -> {got:?}, model expects {want:?}"));
                }
            }
            match r {
                Ok(id) => {
                    let existing = w.m.nodes.iter().find(|(_, n)| matches!(&n.kind, MKind::Alias { src, export: e } if *src == node && *e == export)).map(|(i, _)| *i);
                    match existing {
                        Some(e) if e != id => note("alias:not-the-existing-alias".into(), format!("alias_instance_export(n{node}, {export:?}) returned n{id} but n{e} already aliases it")),
                        Some(_) => {}
                        None => {
                            if w.m.nodes.contains_key(&id) {
                                note("alias:returned-unrelated-live-node".into(), format!("alias_instance_export(n{node}, {export:?}) returned live node n{id}"));
                            }
                            let (key, is_instance) = known
                                .and_then(|k| k.into_iter().find(|e| e.0 == export))
                                .map(|e| (e.1, e.2))
                                .unwrap_or((format!("unknown:{export}"), false));
                            w.m.nodes.insert(id, MNode { kind: MKind::Alias { src: node, export: export.clone() }, pkg: mn.pkg, name: None, exports: vec![], key, is_instance });
                        }
                    }
                    (format!("n{id} = alias n{node}.{export:?}"), "alias:ok")
                }
                Err(_) => (format!("alias n{node}.{export:?} -> {}", got.unwrap_err()), "alias:err"),
            }
        }
        Op::Set(inst, arg, src) => {
            let r = catch(|| w.g.set_instantiation_argument(inst, &arg, src))?;
            let got = r.as_ref().map(|_| ()).map_err(err_name_arg);
            let want: Result<(), &str> = match &w.m.nodes[&inst].kind {
                MKind::Inst { pkg } => {
                    let names = w.comp_import_names(*pkg);
                    if !names.contains(&arg) {
                        Err("InvalidArgumentName")
                    } else if let Some((s, _, _)) = w.m.args.iter().find(|(_, t, a)| *t == inst && *a == arg) {
                        if *s == src { Ok(()) } else { Err("ArgumentAlreadyPassed") }
                    } else {
                        // type verdict: the implementation's (C07 decides types); only bookkeeping here
                        match got {
                            Err("ArgumentTypeMismatch") => Err("ArgumentTypeMismatch"),
                            _ => Ok(()),
                        }
                    }
                }
                _ => Err("NodeIsNotAnInstantiation"),
            };
            if got != want {
                note(format!("set_argument:{:?}-vs-{:?}", got, want), format!("set_instantiation_argument(n{inst}, {arg:?}, n{src}) -> {got:?}, model expects {want:?}"));
            }
            let twin = got.is_ok() && w.m.args.iter().any(|(s, t, a)| *s == src && *t == inst && *a != arg);
            if got.is_ok() && !w.m.args.iter().any(|(s, t, a)| *s == src && *t == inst && *a == arg) {
                w.m.args.push((src, inst, arg.clone()));
            }
            (format!("set n{inst}[{arg:?}] = n{src} -> {}", match &got { Ok(()) => "Ok", Err(e) => e }), if twin { "set:ok:node-already-feeds-another-argument" } else if got.is_ok() { "set:ok" } else { "set:err" })
        }
        Op::Unset(inst, arg, src) => {
            let r = catch(|| w.g.unset_instantiation_argument(inst, &arg, src))?;
            let got = r.as_ref().map(|_| ()).map_err(err_name_arg);
            let want: Result<(), &str> = match &w.m.nodes[&inst].kind {
                MKind::Inst { pkg } => {
                    if w.comp_import_names(*pkg).contains(&arg) { Ok(()) } else { Err("InvalidArgumentName") }
                }
                _ => Err("NodeIsNotAnInstantiation"),
            };
            if got != want {
                note(format!("unset_argument:{:?}-vs-{:?}", got, want), format!("unset_instantiation_argument(n{inst}, {arg:?}, n{src}) -> {got:?}, model expects {want:?}"));
            }
            let twin = got.is_ok() && w.m.args.iter().any(|(s, t, a)| *s == src && *t == inst && *a == arg) && w.m.args.iter().any(|(s, t, a)| *s == src && *t == inst && *a != arg);
            if got.is_ok() {
                w.m.args.retain(|(s, t, a)| !(*s == src && *t == inst && *a == arg));
            }
            (format!("unset n{inst}[{arg:?}] = n{src} -> {}", match &got { Ok(()) => "Ok", Err(e) => e }), if twin { "unset:ok:node-still-feeds-another-argument" } else if got.is_ok() { "unset:ok" } else { "unset:err" })
        }
        Op::Export(node, name) => {
            let taken = w.m.nodes.values().any(|n| n.exports.contains(&name));
            let want = if taken {
                Err("ExportAlreadyExists")
            } else if !valid_name(&name) || IMPORT_ONLY_NAMES.contains(&name.as_str()) {
                Err("InvalidExportName")
            } else {
                Ok(())
            };
            let r = catch(|| w.g.export(node, name.clone()))?;
            let got = r.as_ref().map(|_| ()).map_err(|e| match e {
                ExportError::ExportAlreadyExists { .. } => "ExportAlreadyExists",
                ExportError::InvalidExportName { .. } => "InvalidExportName",
            });
            if got != want {
                note(format!("export:{:?}-vs-{:?}", got, want), format!("export(n{node}, {name:?}) -> {got:?}, model expects {want:?}"));
            }
            if got.is_ok() {
                export_names.insert(name.clone());
                w.m.nodes.get_mut(&node).unwrap().exports.push(name.clone());
            }
            (format!("export n{node} as {name:?} -> {}", match &got { Ok(()) => "Ok", Err(e) => e }), if got.is_ok() { "export:ok" } else { "export:err" })
        }
        Op::Unexport(node) => {
            let is_def = matches!(w.m.nodes[&node].kind, MKind::Def { .. });
            let r = catch(|| w.g.unexport(node))?;
            let got = r.as_ref().map(|_| ()).map_err(|e| match e {
                UnexportError::MustExportDefinition => "MustExportDefinition",
            });
            let want = if is_def { Err("MustExportDefinition") } else { Ok(()) };
            if got != want {
                note(format!("unexport:{:?}-vs-{:?}", got, want), format!("unexport(n{node}) -> {got:?}, model expects {want:?}"));
            }
            if got.is_ok() {
                w.m.nodes.get_mut(&node).unwrap().exports.clear();
            }
            (format!("unexport n{node} -> {}", match &got { Ok(()) => "Ok", Err(e) => e }), "unexport")
        }
        Op::Name(node, name) => {
            catch(|| w.g.set_node_name(node, name.clone()))?;
            w.m.nodes.get_mut(&node).unwrap().name = Some(name.clone());
            (format!("name n{node} {name:?}"), "name")
        }
        Op::Remove(node) => {
            catch(|| w.g.remove_node(node))?;
            let mut removed = Vec::new();
            w.model_remove(node, &mut removed);
            (format!("remove n{node} (model removes {} nodes)", removed.len()), "remove")
        }
    };
    Ok(StepResult { text, mismatch, kind })
}

fn encode_probe(ctx: &mut Ctx, case: u64, w: &World, input: &Value) {
    let r = catch(|| w.g.clone().encode(EncodeOptions { define_components: true, validate: false, processor: None }));
    match r {
        Err(p) => {
            let loc = short_location(&p.location);
            let file = loc.rsplit('/').next().unwrap_or("").split(':').next().unwrap_or("").to_string();
            ctx.violation(case, &format!("C06:encode-panics-after-history:{file}:{}", normalize_msg(&p.message)), format!("encode panicked after an accepted history: {p}"), input.clone());
        }
        Ok(Ok(bytes)) => {
            ctx.count("encode-probe:ok");
            if let Err(msg) = validate(&bytes) {
                // recorded finding of C01 (export() accepts an item whose type mentions types that have
                // no name at the root of the composition): instances, and - through aliases of aliases -
                // functions and types taken out of an aliased interface
                let nested_alias_exported = w.m.nodes.values().any(|n| !n.exports.is_empty() && matches!(&n.kind, MKind::Alias { src, .. } if matches!(w.m.nodes.get(src).map(|s| &s.kind), Some(MKind::Alias { .. }))));
                if msg.contains("instance not valid to be used as export")
                    || msg.contains("resource types are not the same")
                    || (nested_alias_exported && (msg.contains("func not valid to be used as export") || msg.contains("type not valid to be used as export")))
                {
                    ctx.count("encode-probe:known-C01-zone");
                } else if msg.contains("type not valid to be used as export") && indirect_dependency_defined_later(w) {
                    ctx.violation(
                        case,
                        "C06:encode-invalid-after-history:indirect-type-dependency-defined-after-dependant",
                        format!("a defined type mentions a record only through an undefined intermediate type and the record was defined after it; define_type adds dependency edges for direct mentions only, so the dependant is emitted first with an anonymous record: {msg}"),
                        input.clone(),
                    );
                } else {
                    ctx.violation(case, &format!("C06:encode-invalid-after-history:{}", normalize_msg(&msg)), format!("the graph encodes to an invalid component after an accepted history: {msg}"), input.clone());
                }
            } else {
                // "the graph still encodes" to the composition that is left: the wiring, the exports
                // and the name section of the output are compared with the surviving graph (C02's
                // translation check), which matters after removals have left holes in the node table
                let exported: Vec<(String, NodeId)> = w
                    .m
                    .nodes
                    .iter()
                    .filter(|(_, n)| !matches!(n.kind, MKind::Def { .. }))
                    .flat_map(|(id, n)| n.exports.iter().map(move |e| (e.clone(), *id)))
                    .collect();
                let diffs = crate::props::c02::compare(&crate::props::c02::Expect { graph: &w.g, exported: &exported }, &bytes, true);
                ctx.count("encode-probe:wiring-compared");
                for (kind, detail) in diffs {
                    if kind == "wiring-differs-only-by-merged-import-names" {
                        ctx.count("encode-probe:known-C02-zone");
                        continue;
                    }
                    ctx.violation(case, &format!("C06:encoded-composition-differs-after-history:{kind}"), detail, input.clone());
                }
            }
        }
        Ok(Err(EncodeError::ValidationFailure { source })) => {
            ctx.violation(case, &format!("C06:encode-invalid-after-history:{}", normalize_msg(&source.to_string())), source.to_string(), input.clone());
        }
        Ok(Err(e)) => {
            let k = match e {
                EncodeError::GraphContainsCycle { .. } => "cycle",
                EncodeError::ImplicitImportConflict { .. } => "implicit-import-conflict",
                EncodeError::ImportTypeMergeConflict { .. } => "merge-conflict",
                EncodeError::ValidationFailure { .. } => unreachable!(),
            };
            ctx.count(&format!("encode-probe:{k}"));
        }
    }
}

/// t2 = option<list<t0>> mentions t0 only through t1: true when t2 and t0 are defined, t1 is not,
/// and t0's node was created after t2's.
fn indirect_dependency_defined_later(w: &World) -> bool {
    let find = |t: usize| w.m.nodes.iter().find(|(_, n)| matches!(n.kind, MKind::Def { ty } if ty == t)).map(|(i, _)| *i);
    match (find(2), find(0), find(1)) {
        (Some(opt), Some(rec), None) => rec > opt,
        _ => false,
    }
}

fn lib_opts(rng: &mut Rng) -> LibOpts {
    let mut o = LibOpts::default();
    o.n_ifaces = rng.range(1, 3);
    o.n_comps = rng.range(2, 3);
    o.versions = false;
    o.iface.resources = false;
    o.iface.max_types = 2;
    o.iface.max_funcs = 2;
    o.inline_ifaces = true;
    o.twin_funcs = true;
    o
}

fn new_world(lib: Library) -> World {
    let mut g = CompositionGraph::new();
    let tu = std::rc::Rc::new(build_types(&mut g));
    World { lib: std::rc::Rc::new(lib), g, m: Model::default(), tu, pkg_ids: vec![], log: vec![] }
}

fn run_history(ctx: &mut Ctx, case: u64, rng: &mut Rng, lib: Library, steps: usize, scripted: Option<&[Op]>) {
    let mut w = new_world(lib);
    let mut export_names: BTreeSet<String> = GOOD_NAMES.iter().map(|s| s.to_string()).collect();
    let mut had_removal_after_edge = false;
    let mut edges_created = false;
    let mut shape = String::new();
    let n_steps = scripted.map(|s| s.len()).unwrap_or(steps);
    for i in 0..n_steps {
        let op = match scripted {
            Some(s) => s[i].clone(),
            None => match gen_op(rng, &w) {
                Some(op) => op,
                None => continue,
            },
        };
        ctx.eval();
        let input_so_far = |w: &World, cur: &str| json!({"library": witgen::library_text(&w.lib), "history": w.log.iter().cloned().chain(std::iter::once(format!("> {cur}"))).collect::<Vec<_>>()});
        let res = match step(&mut w, &op, &mut export_names) {
            Ok(r) => r,
            Err(p) => {
                let loc = short_location(&p.location);
                let file = loc.rsplit('/').next().unwrap_or("").split(':').next().unwrap_or("").to_string();
                let opname = format!("{op:?}");
                let opname = opname.split('(').next().unwrap_or("").to_string();
                ctx.violation(case, &format!("C06:api-panic:{opname}:{file}:{}", normalize_msg(&p.message)), format!("{op:?} panicked with live identifiers: {p}"), input_so_far(&w, &format!("{op:?}")));
                return; // the graph may be half-updated
            }
        };
        ctx.count(&format!("op:{}", res.kind));
        shape.push_str(res.kind);
        shape.push(';');
        if matches!(res.kind, "set:ok" | "alias:ok") {
            edges_created = true;
        }
        if matches!(res.kind, "remove" | "unregister") && edges_created {
            had_removal_after_edge = true;
        }
        w.log.push(res.text.clone());
        if let Some((sig, detail)) = res.mismatch {
            ctx.violation(case, &format!("C06:result:{sig}"), detail, input_so_far(&w, ""));
        }
        // snapshot comparison
        let sm = w.snapshot_model();
        let sr = match catch(|| w.snapshot_real(&export_names)) {
            Ok(v) => v,
            Err(p) => {
                ctx.violation(case, &format!("C06:query-panic:{}", normalize_msg(&p.message)), format!("a query panicked after {}: {p}", res.text), input_so_far(&w, ""));
                return;
            }
        };
        if sm != sr {
            let d = crate::props::c12::first_diff(&sm, &sr, "$").unwrap_or_default();
            let what = d.split(|c| c == ':' || c == ' ').next().unwrap_or("").chars().filter(|c| !c.is_ascii_digit()).collect::<String>();
            let opname = res.kind.split(':').next().unwrap_or("");
            ctx.violation(case, &format!("C06:state-differs-after-{opname}:{what}"), format!("after `{}` the queries differ from the model at {d}\nmodel: {sm}\nreal:  {sr}", res.text), input_so_far(&w, ""));
            return; // later steps would only repeat the difference
        }
        let inv = w.g.verif_invariants();
        if !inv.is_empty() {
            let first = normalize_msg(&inv[0]);
            let opname = res.kind.split(':').next().unwrap_or("");
            ctx.violation(case, &format!("C06:invariant-after-{opname}:{first}"), format!("after `{}`: {inv:?}", res.text), input_so_far(&w, ""));
            return;
        }
        ctx.count("invariant-checks");
        if i % 8 == 7 || i + 1 == n_steps {
            // a type that mentions the record t0 can only be exported once t0 itself is defined
            // (records must be named); the API does not check this and the probe stays out of it
            let defined: BTreeSet<usize> = w.m.nodes.values().filter_map(|n| if let MKind::Def { ty } = n.kind { Some(ty) } else { None }).collect();
            let needs_rec = [1usize, 2, 3, 6].iter().any(|t| defined.contains(t));
            if needs_rec && !defined.contains(&0) {
                ctx.count("encode-probe:skipped-anonymous-record");
            } else {
                let input = input_so_far(&w, "encode");
                encode_probe(ctx, case, &w, &input);
            }
        }
    }
    if had_removal_after_edge {
        ctx.shape_str(&shape);
        if ctx.samples.len() < 2 {
            ctx.sample(json!({"case": case, "history": w.log}));
        }
    }
}

/// Every operation applicable in the current state over a small universe (for the exhaustive part).
fn enumerate_ops(w: &World) -> Vec<Op> {
    let mut ops = Vec::new();
    let names = ["foo", "bar"];
    let live_pkgs: Vec<usize> = (0..w.m.pkgs.len()).filter(|i| w.m.pkgs[*i].1).collect();
    let nodes: Vec<NodeId> = w.m.nodes.keys().copied().collect();
    for c in 0..w.lib.comps.len() {
        if !w.m.pkgs.iter().any(|(cc, live)| *live && *cc == c) {
            ops.push(Op::Register(c));
        }
    }
    for h in &live_pkgs {
        ops.push(Op::Unregister(*h));
        if w.m.nodes.values().filter(|n| matches!(n.kind, MKind::Inst { pkg } if pkg == *h)).count() < 2 {
            ops.push(Op::Instantiate(*h));
        }
    }
    for t in [0usize, 1, 3] {
        if !w.m.nodes.values().any(|n| matches!(n.kind, MKind::Def { ty } if ty == t)) {
            ops.push(Op::Define(format!("ty{t}"), t));
        }
    }
    for n in &nodes {
        let mn = &w.m.nodes[n];
        if let MKind::Inst { pkg } = mn.kind {
            for (e, _, _) in w.comp_exports(w.m.pkgs[pkg].0) {
                ops.push(Op::Alias(*n, e));
            }
            for a in w.comp_import_names(pkg) {
                if !w.m.nodes.values().any(|x| matches!(&x.kind, MKind::Import { name } if *name == a)) {
                    ops.push(Op::Import(a.clone(), *n, a.clone()));
                }
                let key = w.import_key(w.m.pkgs[pkg].0, &a);
                for src in &nodes {
                    if w.m.nodes[src].key == key {
                        ops.push(Op::Set(*n, a.clone(), *src));
                    }
                }
            }
        }
        for name in names {
            ops.push(Op::Export(*n, name.to_string()));
        }
        if !mn.exports.is_empty() {
            ops.push(Op::Unexport(*n));
        }
        ops.push(Op::Remove(*n));
    }
    for (s, t, a) in &w.m.args {
        ops.push(Op::Unset(*t, a.clone(), *s));
    }
    ops
}

struct Enum<'a> {
    ctx: &'a mut Ctx,
    case: u64,
    export_names: BTreeSet<String>,
    histories: u64,
    max_depth: usize,
}

fn dfs(e: &mut Enum, w: &World, depth: usize, top_filter: Option<(u64, u64)>) {
    if depth == e.max_depth {
        e.histories += 1;
        return;
    }
    let ops = enumerate_ops(w);
    for (i, op) in ops.iter().enumerate() {
        if let Some((shard, n)) = top_filter {
            if i as u64 % n != shard {
                continue;
            }
        }
        let mut w2 = w.clone();
        e.ctx.eval();
        let input = |w: &World, cur: &str| json!({"library": witgen::library_text(&w.lib), "history": w.log.iter().cloned().chain(std::iter::once(format!("> {cur}"))).collect::<Vec<_>>()});
        let res = match step(&mut w2, op, &mut e.export_names) {
            Ok(r) => r,
            Err(p) => {
                let loc = short_location(&p.location);
                let file = loc.rsplit('/').next().unwrap_or("").split(':').next().unwrap_or("").to_string();
                let opname = format!("{op:?}");
                let opname = opname.split('(').next().unwrap_or("").to_string();
                e.ctx.violation(e.case, &format!("C06:api-panic:{opname}:{file}:{}", normalize_msg(&p.message)), format!("{op:?} panicked with live identifiers: {p}"), input(w, &format!("{op:?}")));
                continue;
            }
        };
        e.ctx.count(&format!("exhaustive-op:{}", res.kind));
        w2.log.push(res.text.clone());
        if let Some((sig, detail)) = res.mismatch {
            e.ctx.violation(e.case, &format!("C06:result:{sig}"), detail, input(&w2, ""));
        }
        let sm = w2.snapshot_model();
        let sr = match catch(|| w2.snapshot_real(&e.export_names)) {
            Ok(v) => v,
            Err(p) => {
                e.ctx.violation(e.case, &format!("C06:query-panic:{}", normalize_msg(&p.message)), p.to_string(), input(&w2, ""));
                continue;
            }
        };
        if sm != sr {
            let d = crate::props::c12::first_diff(&sm, &sr, "$").unwrap_or_default();
            let what = d.split(|c| c == ':' || c == ' ').next().unwrap_or("").chars().filter(|c| !c.is_ascii_digit()).collect::<String>();
            let opname = res.kind.split(':').next().unwrap_or("");
            e.ctx.violation(e.case, &format!("C06:state-differs-after-{opname}:{what}"), format!("after `{}` the queries differ from the model at {d}", res.text), input(&w2, ""));
            continue;
        }
        let inv = w2.g.verif_invariants();
        if !inv.is_empty() {
            let opname = res.kind.split(':').next().unwrap_or("");
            e.ctx.violation(e.case, &format!("C06:invariant-after-{opname}:{}", normalize_msg(&inv[0])), format!("after `{}`: {inv:?}", res.text), input(&w2, ""));
            continue;
        }
        if depth + 1 == e.max_depth && matches!(res.kind, "remove" | "unregister" | "unexport" | "unset:ok") {
            let defined: BTreeSet<usize> = w2.m.nodes.values().filter_map(|n| if let MKind::Def { ty } = n.kind { Some(ty) } else { None }).collect();
            if !([1usize, 3].iter().any(|t| defined.contains(t)) && !defined.contains(&0)) {
                let inp = input(&w2, "encode");
                encode_probe(e.ctx, e.case, &w2, &inp);
            }
        }
        dfs(e, &w2, depth + 1, None);
    }
}

/// A fixed tiny library for the exhaustive part: provider exports what consumer imports.
fn tiny_library() -> Library {
    let script = crate::witness::Script {
        name: "tiny",
        libs: vec![crate::witness::LIB_PLAIN],
        comps: vec![
            ("test:prov", "package test:prov;\nworld w { export ns:lib/i1; }\n"),
            ("test:cons", "package test:cons;\nworld w { import ns:lib/i1; export ns:lib/i1; }\n"),
        ],
        ops: vec![],
    };
    crate::witness::build_library(&script).expect("tiny library builds")
}

pub fn run(ctx: &mut Ctx) {
    // directed witness of the recorded finding (indirect dependency defined later)
    let wcase = crate::witness::WITNESS_BASE;
    if ctx.mine(wcase) {
        ctx.begin(wcase);
        let mut rng = ctx.rng(wcase);
        let ops = vec![Op::Define("foo".into(), 2), Op::Define("t0".into(), 0)];
        run_history(ctx, wcase, &mut rng, tiny_library(), 0, Some(&ops));
        ctx.count("witness-run");
    }
    // exhaustive part: all histories up to a depth over the tiny universe, after a fixed prefix
    // that registers both packages (so that the depth is spent on interesting operations)
    {
        let depth = ctx.n(5, 6) as usize;
        let xcase = crate::witness::WITNESS_BASE + 1;
        let nsh = ctx.nshards;
        let sh = ctx.shard;
        if ctx.only_case.is_none() || ctx.only_case == Some(xcase) {
            ctx.begin(xcase + sh);
            let mut w = new_world(tiny_library());
            let mut names: BTreeSet<String> = ["foo", "bar", "ty0", "ty1", "ty3", "ns:lib/i1"].iter().map(|s| s.to_string()).collect();
            for op in [Op::Register(0), Op::Register(1), Op::Instantiate(0), Op::Instantiate(1)] {
                let r = step(&mut w, &op, &mut names).expect("prefix");
                w.log.push(r.text);
            }
            let mut e = Enum { ctx, case: xcase, export_names: names, histories: 0, max_depth: depth };
            let filter = if e.ctx.only_case.is_some() { None } else { Some((sh, nsh)) };
            dfs(&mut e, &w, 0, filter);
            let h = e.histories;
            ctx.add("exhaustive-histories", h);
            ctx.note("exhaustive_depth", json!(depth));
            ctx.exhaustive = Some(true);
        }
    }
    let total = ctx.n(3_000, 600_000);
    for case in ctx.cases(total) {
        if ctx.out_of_budget() {
            ctx.count("budget-stop");
            break;
        }
        ctx.begin(case);
        let mut rng = ctx.rng(case);
        let lo = lib_opts(&mut rng);
        let Ok(lib) = witgen::gen_library(&mut rng, &lo) else {
            ctx.count("gen-fail");
            continue;
        };
        let steps = if rng.chance(1, 4) { rng.range(60, 200) } else { rng.range(8, 50) };
        run_history(ctx, case, &mut rng, lib, steps, None);
        ctx.count("histories");
    }
}
