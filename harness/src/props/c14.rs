//! C14 — no input crashes the front end; diagnostics point inside the source.
//!
//! Monitors: every call is wrapped (panic = event), the supervisor attributes abnormal worker
//! exits and hangs to the case marked before execution, every span in returned trees and
//! diagnostics is checked against the source, every diagnostic is rendered. The sanitizer lanes
//! (ASan / Miri, thorough tier) re-run a sample of the same corpus.

use crate::ctx::Ctx;
use crate::fixtures::{self, Fixture};
use crate::props::c12::span_ok;
use crate::util::{catch, clip, normalize_msg, short_location, Rng};
use crate::wacgen::{self, Gen};
use crate::witgen::{self, LibOpts};
use indexmap::IndexMap;
use miette::Diagnostic;
use serde_json::{json, Value};
use wac_parser::Document;
use wac_resolver::{packages, FileSystemPackageResolver};
use wac_types::{BorrowedPackageKey, Package, Types};

fn panic_sig(what: &str, p: &crate::util::Panicked) -> String {
    let loc = short_location(&p.location);
    let file = loc.split(':').next().unwrap_or("").to_string();
    format!("C14:panic:{what}:{file}:{}", normalize_msg(&p.message))
}

/// Checks the labels of a diagnostic against the source and renders it.
fn check_diag(ctx: &mut Ctx, case: u64, what: &str, src: &str, d: &dyn Diagnostic, input: &Value) {
    if let Some(labels) = d.labels() {
        for l in labels {
            if !span_ok(src, l.offset(), l.len()) {
                ctx.violation(case, &format!("C14:span-outside-source:{what}-error"), format!("label ({},{}) for a source of {} bytes: {}", l.offset(), l.len(), src.len(), d), input.clone());
            }
        }
    }
    ctx.count(&format!("{what}:error"));
}

fn render_ok(ctx: &mut Ctx, case: u64, what: &str, rendered: &str, input: &Value) {
    if rendered.contains("<render failed>") {
        ctx.violation(case, &format!("C14:diagnostic-does-not-render:{what}"), "GraphicalReportHandler::render_report failed".into(), input.clone());
    }
}

/// Parses a text; checks spans; returns whether it was accepted.
pub fn check_parse(ctx: &mut Ctx, case: u64, src: &str, input: &Value) -> bool {
    ctx.eval();
    let r = catch(|| match Document::parse(src) {
        Ok(doc) => {
            let tree = serde_json::to_value(&doc).unwrap_or(Value::Null);
            let mut spans = Vec::new();
            wacgen::collect_spans(&tree, &mut spans);
            Ok(spans)
        }
        Err(e) => {
            let labels: Vec<(usize, usize)> = e.labels().map(|ls| ls.map(|l| (l.offset(), l.len())).collect()).unwrap_or_default();
            let text = e.to_string();
            let rendered = fixtures::render(e, std::path::Path::new("input.wac"), src);
            Err((labels, text, rendered))
        }
    });
    match r {
        Err(p) => {
            ctx.violation(case, &panic_sig("parse", &p), format!("Document::parse panicked: {p}"), input.clone());
            false
        }
        Ok(Ok(spans)) => {
            ctx.count("parse:ok");
            for (o, l) in spans {
                if !span_ok(src, o as usize, l as usize) {
                    ctx.violation(case, "C14:span-outside-source:tree", format!("tree span ({o},{l}) for a source of {} bytes", src.len()), input.clone());
                    break;
                }
            }
            true
        }
        Ok(Err((labels, text, rendered))) => {
            ctx.count("parse:error");
            for (o, l) in labels {
                if !span_ok(src, o, l) {
                    ctx.violation(case, "C14:span-outside-source:parse-error", format!("label ({o},{l}) for a source of {} bytes: {text}", src.len()), input.clone());
                }
            }
            render_ok(ctx, case, "parse", &rendered, input);
            false
        }
    }
}

fn mutate_bytes(rng: &mut Rng, b: &mut Vec<u8>) -> &'static str {
    if b.is_empty() {
        b.push(0);
        return "insert";
    }
    match rng.below(7) {
        0 => {
            let n = rng.below(b.len());
            b.truncate(n);
            "truncate"
        }
        1 => {
            let i = rng.below(b.len());
            b[i] ^= 1 << rng.below(8);
            "bitflip"
        }
        2 => {
            let i = rng.below(b.len());
            b[i] = rng.below(256) as u8;
            "byte"
        }
        3 => {
            let i = rng.below(b.len());
            b.remove(i);
            "delete"
        }
        4 => {
            let i = rng.below(b.len());
            b.insert(i, rng.below(256) as u8);
            "insert"
        }
        5 => {
            // splice a chunk from elsewhere
            let i = rng.below(b.len());
            let j = rng.below(b.len());
            let n = rng.range(1, 16).min(b.len() - j);
            let chunk: Vec<u8> = b[j..j + n].to_vec();
            for (k, c) in chunk.into_iter().enumerate() {
                if i + k < b.len() {
                    b[i + k] = c;
                }
            }
            "splice"
        }
        _ => {
            let i = rng.below(b.len());
            b[i] = *rng.pick(&[0u8, 0xff, 0x7f, 0x80, 0x01]);
            "extreme"
        }
    }
}

fn mutate_text(rng: &mut Rng, s: &str) -> String {
    let mut chars: Vec<char> = s.chars().collect();
    let n = rng.range(1, 3);
    for _ in 0..n {
        if chars.is_empty() {
            chars.push('x');
            continue;
        }
        let i = rng.below(chars.len());
        match rng.below(6) {
            0 => {
                chars.truncate(i);
            }
            1 => {
                chars.remove(i);
            }
            2 => chars.insert(i, *rng.pick(&['{', '}', '(', ')', '<', '>', '"', '/', '*', '%', ':', '@', '.', ',', ';', '-', '_', ' ', '\n', 'é', '✓', '\u{202e}', '\u{0}', '𝄞'])),
            3 => chars[i] = *rng.pick(&['{', '}', '"', '/', '*', '%', ':', '@', '.', '-', 'a', '0', 'é', '𝄞']),
            4 => {
                let j = rng.below(chars.len());
                chars.swap(i, j);
            }
            _ => {
                let j = (i + rng.range(1, 20)).min(chars.len());
                let chunk: Vec<char> = chars[i..j].to_vec();
                for c in chunk.into_iter().rev() {
                    chars.insert(i, c);
                }
            }
        }
    }
    chars.into_iter().collect()
}

fn random_text(rng: &mut Rng) -> String {
    let alphabet: Vec<char> = "abcxyz019 \n\t{}()<>[];:,./@%\"*-_=→éß中𝄞\u{202e}\u{0}\u{7f}".chars().collect();
    let words = ["package", "import", "export", "let", "new", "interface", "world", "func", "use", "as", "...", "->", "a:b", "a:b/c@1.0.0", "/*", "*/", "//", "///", "\"", "%"];
    let n = rng.range(0, 60);
    let mut s = String::new();
    for _ in 0..n {
        if rng.chance(1, 2) {
            s.push_str(*rng.pick(&words));
            s.push(' ');
        } else {
            s.push(*rng.pick(&alphabet));
        }
    }
    s
}

fn deep(kind: usize, depth: usize) -> (String, &'static str) {
    match kind {
        0 => (format!("package a:b; let x = {}y{};", "(".repeat(depth), ")".repeat(depth)), "nested-parens"),
        1 => (format!("package a:b; type t = {}u8{};", "list<".repeat(depth), ">".repeat(depth)), "nested-list-type"),
        2 => (format!("package a:b; let x = {}y{};", "new a:b { z: ".repeat(depth), " }".repeat(depth)), "nested-new"),
        3 => (format!("package a:b; {} x {} let x = y;", "/*".repeat(depth), "*/".repeat(depth)), "nested-block-comment"),
        4 => (format!("package a:b; let x = y{};", ".z".repeat(depth)), "long-access-chain"),
        5 => (format!("package a:b; type t = {}u8{};", "tuple<".repeat(depth), ">".repeat(depth)), "nested-tuple-type"),
        6 => (format!("package a:b; import x: {} {};", "interface { y: ".repeat(1), "func(); }"), "inline-interface"),
        7 => (format!("package a:b; type t = {}u8{};", "option<result<".repeat(depth), ">>".repeat(depth)), "nested-option-result"),
        8 => (format!("package a:b; type t = {}u8{};", "result<_, ".repeat(depth), ">".repeat(depth)), "nested-result-error-position"),
        9 => (format!("package a:b; type t = {}u8{};", "result<".repeat(depth), ", u8>".repeat(depth)), "nested-result-ok-position"),
        10 => (format!("package a:b; type t = {}u8{};", "tuple<u8, ".repeat(depth), ">".repeat(depth)), "nested-tuple-last-position"),
        11 => (format!("package a:b; import f: func(a: {}u8{}) -> {}u8{};", "list<".repeat(depth), ">".repeat(depth), "option<".repeat(depth), ">".repeat(depth)), "nested-types-in-a-function-signature"),
        12 => (format!("package a:b; let x = new a:b {{ z: {}y{} }};", "(".repeat(depth), ")".repeat(depth)), "nested-parens-in-an-argument"),
        _ => (format!("package a:b; interface i {{ record r {{ f: {}u8{} }} }}", "list<".repeat(depth), ">".repeat(depth)), "nested-type-in-a-record-field"),
    }
}

/// Long chains of definitions: nothing nests in the source, the depth is in the references, so
/// it is resolution and encoding (not the parser) that walk them.
fn chain(kind: usize, n: usize) -> (String, &'static str) {
    let mut s = String::from("package a:b;\n");
    match kind {
        0 => {
            s.push_str("type a0 = u8;\n");
            for i in 1..n {
                s.push_str(&format!("type a{i} = a{};\n", i - 1));
            }
            (s, "alias-chain")
        }
        1 => {
            s.push_str("type a0 = u8;\n");
            for i in 1..n {
                s.push_str(&format!("type a{i} = list<a{}>;\n", i - 1));
            }
            (s, "list-chain")
        }
        2 => {
            s.push_str("interface i0 { type t = u8; }\n");
            for i in 1..n {
                s.push_str(&format!("interface i{i} {{ use i{}.{{t}}; }}\n", i - 1));
            }
            (s, "use-chain")
        }
        3 => {
            s.push_str("world w0 { import f: func(); }\n");
            for i in 1..n {
                s.push_str(&format!("world w{i} {{ include w{}; }}\n", i - 1));
            }
            (s, "include-chain")
        }
        _ => {
            // nesting just inside the parser's limit, through the whole pipeline
            let d = n.min(60);
            s.push_str(&format!("type t = {}u8{};\ninterface i {{ f: func(x: {}u8{}) -> {}u8{}; }}\n", "list<".repeat(d), ">".repeat(d), "option<".repeat(d), ">".repeat(d), "tuple<".repeat(d), ">".repeat(d)));
            (s, "nesting-inside-the-limit")
        }
    }
}

/// Runs `f` on a fresh thread with the given stack size (Rust's default for spawned threads is 2 MiB).
fn on_thread<T: Send + 'static>(stack: usize, f: impl FnOnce() -> T + Send + 'static) -> T {
    std::thread::Builder::new().stack_size(stack).spawn(f).expect("spawn").join().expect("join")
}

fn run_chain(text: &str) -> &'static str {
    let doc = match Document::parse(text) {
        Ok(d) => d,
        Err(_) => return "parse-error",
    };
    let res = match doc.resolve(Default::default()) {
        Ok(r) => r,
        Err(_) => return "resolve-error",
    };
    match res.encode(wac_graph::EncodeOptions::default()) {
        Ok(_) => "encoded",
        Err(_) => "encode-error",
    }
}

/// (what, bytes): a component importing a core module type one of whose imports is an *exact*
/// function type (custom-descriptors proposal; byte 0x20 before the type index) - fixed by 90411d9.
const SHAPED_HEX: [(&str, &str); 1] = [(
    "module-type-with-exact-function-import",
    "0061736d0d00010003320150070160017f0000016101660000000161017401700001000161016d020101020001610167037e010160000003016520010a070100016d001100",
)];

const SHAPED_WAT: [&str; 14] = [
    "(component)",
    "(module)",
    "(component (core module (func)))",
    "(component (import \"m\" (core module (import \"a\" \"f\" (func (param i32))) (import \"a\" \"t\" (table 1 funcref)) (import \"a\" \"m\" (memory 1 2)) (import \"a\" \"g\" (global (mut i64))) (export \"e\" (func)))))",
    "(component (import \"m\" (core module (import \"a\" \"m64\" (memory i64 1)) (import \"a\" \"sm\" (memory 1 2 shared)) (import \"a\" \"tag\" (tag (param i32))))))",
    "(component (import \"m\" (core module (import \"a\" \"g\" (global (ref null func))) (import \"a\" \"h\" (global (ref null extern))) (import \"a\" \"v\" (global v128)))))",
    "(component (import \"m\" (core module (import \"a\" \"g\" (global (ref null any))) (import \"a\" \"s\" (global (ref null struct))) (import \"a\" \"i\" (global (ref null i31))))))",
    "(component (import \"m\" (core module (type (struct (field i32))) (import \"a\" \"g\" (global (ref null 0))))))",
    "(component (import \"m\" (core module (import \"a\" \"g\" (global (ref null (shared any)))))))",
    "(component (import \"v\" (value string)) (import \"w\" (value (option u8))))",
    "(component (import \"c\" (component (import \"x\" (func)) (export \"y\" (func)))) (import \"i\" (instance (export \"f\" (func (param \"a\" (list u8)))))))",
    "(component (type $r (resource (rep i32))) (export \"r\" (type $r)))",
    "(component (import \"r\" (type $r (sub resource))) (import \"f\" (func (param \"x\" (borrow $r)) (result (own $r)))))",
    "(component (import \"s\" (func (param \"x\" (stream u8)) (result (future string)))) (import \"e\" (func (param \"c\" error-context))) (import \"a\" (func async)))",
];

fn check_package(ctx: &mut Ctx, case: u64, bytes: &[u8], input: &Value) {
    ctx.eval();
    let r = catch(|| {
        let mut types = Types::default();
        Package::from_bytes("test:pkg", None, bytes.to_vec(), &mut types).map(|_| ()).map_err(|e| format!("{e:#}"))
    });
    match r {
        Err(p) => ctx.violation(case, &panic_sig("from_bytes", &p), format!("Package::from_bytes panicked: {p}"), input.clone()),
        Ok(Ok(())) => ctx.count("from_bytes:ok"),
        Ok(Err(_)) => ctx.count("from_bytes:error"),
    }
}

/// Resolves a fixture document with (possibly tampered) packages and encodes on success.
fn check_resolve(ctx: &mut Ctx, case: u64, f: &Fixture, tamper: impl FnOnce(&mut IndexMap<BorrowedPackageKey, Vec<u8>>), input: &Value) {
    ctx.eval();
    let r = catch(|| {
        let doc = match Document::parse(&f.source) {
            Ok(d) => d,
            Err(_) => return Ok("parse-error".to_string()),
        };
        let keys = match packages(&doc) {
            Ok(k) => k,
            Err(e) => {
                let mut bad = Vec::new();
                if let Some(ls) = e.labels() {
                    for l in ls {
                        if !span_ok(&f.source, l.offset(), l.len()) {
                            bad.push((l.offset(), l.len()));
                        }
                    }
                }
                return if bad.is_empty() { Ok("discover-error".to_string()) } else { Err(format!("discover span {bad:?}")) };
            }
        };
        let resolver = FileSystemPackageResolver::new(&f.deps, Default::default(), false);
        let mut pkgs = match resolver.resolve(&keys) {
            Ok(p) => p,
            Err(_) => return Ok("packages-error".to_string()),
        };
        tamper(&mut pkgs);
        match doc.resolve(pkgs) {
            Ok(res) => match res.encode(wac_graph::EncodeOptions::default()) {
                Ok(_) => Ok("encoded".to_string()),
                Err(e) => {
                    let mut bad = Vec::new();
                    if let Some(ls) = e.labels() {
                        for l in ls {
                            if !span_ok(&f.source, l.offset(), l.len()) {
                                bad.push((l.offset(), l.len()));
                            }
                        }
                    }
                    let rendered = fixtures::render(e, &f.path, &f.source);
                    if rendered.contains("<render failed>") {
                        return Err("encode diagnostic does not render".into());
                    }
                    if bad.is_empty() { Ok("encode-error".to_string()) } else { Err(format!("encode span {bad:?}")) }
                }
            },
            Err(e) => {
                let mut bad = Vec::new();
                if let Some(ls) = e.labels() {
                    for l in ls {
                        if !span_ok(&f.source, l.offset(), l.len()) {
                            bad.push((l.offset(), l.len()));
                        }
                    }
                }
                let rendered = fixtures::render(e, &f.path, &f.source);
                if rendered.contains("<render failed>") {
                    return Err("resolve diagnostic does not render".into());
                }
                if bad.is_empty() { Ok("resolve-error".to_string()) } else { Err(format!("resolve span {bad:?}")) }
            }
        }
    });
    match r {
        Err(p) => ctx.violation(case, &panic_sig("resolve-or-encode", &p), format!("resolve/encode panicked: {p}"), input.clone()),
        Ok(Ok(class)) => ctx.count(&format!("pipeline:{class}")),
        Ok(Err(msg)) => ctx.violation(case, "C14:span-outside-source:resolution", msg, input.clone()),
    }
}

pub fn run(ctx: &mut Ctx) {
    if let Some(input) = ctx.replay_input.clone() {
        let case = ctx.only_case.unwrap_or(0);
        if let Some(t) = input.get("text").and_then(|t| t.as_str()) {
            check_parse(ctx, case, t, &input);
            return;
        }
        if let (Some(k), Some(d)) = (input.get("deep_kind").and_then(|v| v.as_u64()), input.get("depth").and_then(|v| v.as_u64())) {
            let (t, _) = deep(k as usize, d as usize);
            let r = Document::parse(&t);
            println!("deep input parsed: ok={}", r.is_ok());
            std::mem::forget(r);
            return;
        }
        if let (Some(k), Some(n)) = (input.get("chain_kind").and_then(|v| v.as_u64()), input.get("length").and_then(|v| v.as_u64())) {
            let (t, _) = chain(k as usize, n as usize);
            let r = match input.get("stack_kib").and_then(|v| v.as_u64()) {
                Some(kib) => on_thread(kib as usize * 1024, move || run_chain(&t)),
                None => run_chain(&t),
            };
            println!("chain input: {r}");
            return;
        }
        if let Some(hex) = input.get("bytes_hex").and_then(|t| t.as_str()) {
            let bytes: Vec<u8> = (0..hex.len() / 2).map(|i| u8::from_str_radix(&hex[2 * i..2 * i + 2], 16).unwrap_or(0)).collect();
            check_package(ctx, case, &bytes, &input);
            return;
        }
    }
    let fx = fixtures::all();
    let hex = |b: &[u8]| b.iter().map(|x| format!("{x:02x}")).collect::<String>();

    // Sanitizer lanes (ASan build, Miri) run the same workload without the deep-nesting block:
    // stack exhaustion is the release lane's subject, and with a smaller case count.
    let lane = std::env::var("WACVERIF_LANE").ok();
    if let Some(l) = &lane {
        ctx.note("lane", json!(l));
    }
    // D: deep nesting at fixed depths (deterministic; run first so a crash is attributed cleanly)
    let depths: &[usize] = if lane.is_some() { &[] } else { &[10usize, 100, 1_000, 5_000, 20_000, 100_000] };
    let mut dcase = crate::witness::WITNESS_BASE;
    for kind in 0..14usize {
        for d in depths.iter().copied() {
            dcase += 1;
            if !ctx.mine(dcase) {
                continue;
            }
            let (text, name) = deep(kind, d);
            if text.len() > 1 << 20 {
                continue; // capped at what a 1 MiB source can express
            }
            let input = json!({"deep_kind": kind, "depth": d, "what": name});
            ctx.begin_with_input(dcase, &input);
            ctx.count(&format!("deep:{name}"));
            // only the parser runs here: the tree is neither serialised nor dropped, so that a
            // stack overflow can only come from Document::parse itself
            ctx.eval();
            match catch(|| {
                let r = Document::parse(&text);
                let ok = r.is_ok();
                std::mem::forget(r);
                ok
            }) {
                Ok(true) => ctx.count("parse:ok"),
                Ok(false) => ctx.count("parse:error"),
                Err(p) => ctx.violation(dcase, &panic_sig("parse", &p), format!("Document::parse panicked: {p}"), input.clone()),
            }
        }
    }
    // L: long chains of definitions through parse, resolve and encode
    let lengths: &[usize] = if lane.is_some() { &[50] } else { &[10usize, 300, 3_000] };
    let mut lcase = crate::witness::WITNESS_BASE + 500;
    for kind in 0..5usize {
        for n in lengths.iter().copied() {
            lcase += 1;
            if !ctx.mine(lcase) {
                continue;
            }
            let (text, name) = chain(kind, n);
            if text.len() > 1 << 20 {
                continue;
            }
            let input = json!({"chain_kind": kind, "length": n, "what": name});
            ctx.begin_with_input(lcase, &input);
            ctx.count(&format!("chain:{name}"));
            ctx.eval();
            match catch(|| run_chain(&text)) {
                Ok(class) => ctx.count(&format!("chain:{name}:{class}")),
                Err(p) => ctx.violation(lcase, &panic_sig("chain", &p), format!("parse/resolve/encode of a {name} of {n} definitions panicked: {p}"), input.clone()),
            }
        }
    }
    // B: binaries found by mutation that the text format cannot express with this toolchain
    for (i, (what, hx)) in SHAPED_HEX.iter().enumerate() {
        let case = crate::witness::WITNESS_BASE + 900 + i as u64;
        if !ctx.mine(case) {
            continue;
        }
        let input = json!({"bytes_hex": hx, "what": what});
        ctx.begin_with_input(case, &input);
        let bytes: Vec<u8> = (0..hx.len() / 2).map(|i| u8::from_str_radix(&hx[2 * i..2 * i + 2], 16).unwrap_or(0)).collect();
        ctx.count("shaped-binary");
        check_package(ctx, case, &bytes, &input);
    }
    // S: shaped WAT components / modules
    for (i, w) in SHAPED_WAT.iter().enumerate() {
        let case = crate::witness::WITNESS_BASE + 1000 + i as u64;
        if !ctx.mine(case) {
            continue;
        }
        let input = json!({"wat": w});
        ctx.begin_with_input(case, &input);
        match wat::parse_str(w) {
            Ok(bytes) => {
                ctx.count("shaped-wat");
                check_package(ctx, case, &bytes, &input);
            }
            Err(_) => ctx.count("shaped-wat-unparsable(harness)"),
        }
    }

    // directed: every shaped component instantiated with `...` through a document, then encoded
    for (i, w) in SHAPED_WAT.iter().enumerate() {
        let case = crate::witness::WITNESS_BASE + 2000 + i as u64;
        if !ctx.mine(case) {
            continue;
        }
        let Ok(bytes) = wat::parse_str(w) else { continue };
        let input = json!({"wat": w, "document": "package test:doc; let i = new test:pkg { ... };"});
        ctx.begin_with_input(case, &input);
        ctx.eval();
        let src = "package test:doc;\nlet i = new test:pkg { ... };\n";
        let r = catch(|| {
            let doc = Document::parse(src).expect("directed document parses");
            let mut pkgs: IndexMap<BorrowedPackageKey, Vec<u8>> = IndexMap::new();
            pkgs.insert(BorrowedPackageKey::from_name_and_version("test:pkg", None), bytes.clone());
            match doc.resolve(pkgs) {
                Ok(res) => match res.encode(wac_graph::EncodeOptions::default()) {
                    Ok(_) => "encoded",
                    Err(_) => "encode-error",
                },
                Err(_) => "resolve-error",
            }
        });
        match r {
            Ok(class) => ctx.count(&format!("directed-pipeline:{class}")),
            Err(p) => ctx.violation(case, &panic_sig("resolve-or-encode", &p), format!("resolve/encode panicked: {p}"), input.clone()),
        }
    }

    let total = match lane.as_deref() {
        Some("miri") => std::env::var("WACVERIF_LANE_CASES").ok().and_then(|v| v.parse().ok()).unwrap_or(16),
        Some(_) => std::env::var("WACVERIF_LANE_CASES").ok().and_then(|v| v.parse().ok()).unwrap_or(20_000),
        None => ctx.n(2_500, 400_000),
    };
    for case in ctx.cases(total) {
        if ctx.out_of_budget() {
            ctx.count("budget-stop");
            break;
        }
        let mut rng = ctx.rng(case);
        match rng.below(10) {
            0 => {
                let t = random_text(&mut rng);
                let input = json!({"text": t});
                ctx.begin_with_input(case, &input);
                ctx.count("input:random-text");
                check_parse(ctx, case, &t, &input);
            }
            1 | 2 => {
                // generated document, byte/char-level mutants
                let mut lay = rng.fork();
                let toks = {
                    let mut g = Gen::new(&mut rng);
                    let n = g.rng.range(1, 8);
                    g.document(n);
                    g.toks
                };
                let text = wacgen::layout(&mut lay, &toks, true);
                for _ in 0..4 {
                    let m = mutate_text(&mut rng, &text);
                    let input = json!({"text": m});
                    ctx.begin_with_input(case, &input);
                    ctx.count("input:generated-doc-mutant");
                    check_parse(ctx, case, &m, &input);
                }
                // truncation at every char boundary for small documents
                if text.len() < 400 {
                    for (i, _) in text.char_indices() {
                        let t = &text[..i];
                        let input = json!({"text": t});
                        ctx.begin_with_input(case, &input);
                        check_parse(ctx, case, t, &input);
                        ctx.count("input:truncation");
                    }
                }
            }
            3 => {
                if fx.is_empty() {
                    continue;
                }
                let f = rng.pick(&fx);
                let m = mutate_text(&mut rng, &f.source);
                let input = json!({"text": m, "fixture": f.path.display().to_string()});
                ctx.begin_with_input(case, &input);
                ctx.count("input:fixture-mutant");
                check_parse(ctx, case, &m, &input);
            }
            4 | 5 => {
                // package bytes: valid generated components and their mutants
                let mut lo = LibOpts::default();
                lo.n_comps = 1;
                lo.n_ifaces = rng.range(1, 3);
                let Ok(lib) = witgen::gen_library(&mut rng, &lo) else { continue };
                let base = lib.comps[0].bytes.clone();
                let input = json!({"origin": "generated component", "world": witgen::print_world_pkg(&lib.comps[0].world)});
                ctx.begin_with_input(case, &input);
                check_package(ctx, case, &base, &input);
                for _ in 0..6 {
                    let mut b = base.clone();
                    let k = mutate_bytes(&mut rng, &mut b);
                    if rng.chance(1, 3) {
                        mutate_bytes(&mut rng, &mut b);
                    }
                    let input = json!({"bytes_hex": if b.len() < 4000 { hex(&b) } else { String::new() }, "mutation": k});
                    ctx.begin_with_input(case, &input);
                    ctx.count("input:package-mutant");
                    check_package(ctx, case, &b, &input);
                }
            }
            6 => {
                // random bytes, with and without a component / module header
                let n = rng.range(0, 64);
                let mut b: Vec<u8> = (0..n).map(|_| rng.below(256) as u8).collect();
                match rng.below(3) {
                    0 => {
                        let mut h = vec![0x00, 0x61, 0x73, 0x6d, 0x0d, 0x00, 0x01, 0x00];
                        h.extend(b);
                        b = h;
                    }
                    1 => {
                        let mut h = vec![0x00, 0x61, 0x73, 0x6d, 0x01, 0x00, 0x00, 0x00];
                        h.extend(b);
                        b = h;
                    }
                    _ => {}
                }
                let input = json!({"bytes_hex": hex(&b)});
                ctx.begin_with_input(case, &input);
                ctx.count("input:random-bytes");
                check_package(ctx, case, &b, &input);
            }
            7 => {
                // shaped WAT mutants
                let w = rng.pick(&SHAPED_WAT);
                if let Ok(mut b) = wat::parse_str(w) {
                    mutate_bytes(&mut rng, &mut b);
                    let input = json!({"bytes_hex": hex(&b), "from_wat": w});
                    ctx.begin_with_input(case, &input);
                    ctx.count("input:shaped-wat-mutant");
                    check_package(ctx, case, &b, &input);
                }
            }
            _ => {
                // pairings: a fixture document with missing / wrong / corrupted packages
                if fx.is_empty() {
                    continue;
                }
                let f = rng.pick(&fx).clone();
                let mode = rng.below(5);
                let input = json!({"fixture": f.path.display().to_string(), "tamper": mode});
                ctx.begin_with_input(case, &input);
                ctx.count("input:document-package-pairing");
                let mut r2 = rng.fork();
                check_resolve(
                    ctx,
                    case,
                    &f,
                    |pkgs| {
                        if pkgs.is_empty() {
                            return;
                        }
                        let i = r2.below(pkgs.len());
                        match mode {
                            0 => {}
                            1 => {
                                pkgs.shift_remove_index(i);
                            }
                            2 => {
                                let (_, b) = pkgs.get_index_mut(i).unwrap();
                                mutate_bytes(&mut r2, b);
                            }
                            3 => {
                                // swap the contents of two packages
                                if pkgs.len() >= 2 {
                                    let j = (i + 1) % pkgs.len();
                                    let a = pkgs[i].clone();
                                    let b = pkgs[j].clone();
                                    *pkgs.get_index_mut(i).unwrap().1 = b;
                                    *pkgs.get_index_mut(j).unwrap().1 = a;
                                }
                            }
                            _ => {
                                let (_, b) = pkgs.get_index_mut(i).unwrap();
                                *b = wat::parse_str(*r2.pick(&SHAPED_WAT)).unwrap_or_default();
                            }
                        }
                    },
                    &input,
                );
            }
        }
        ctx.shape(case);
        if ctx.samples.len() < 3 && case % 7 == 0 {
            ctx.sample(json!({"case": case, "kind": "see observed input:* counters", "last_input": clip(&std::fs::read_to_string(format!("{}.curinput", ctx.out)).unwrap_or_default(), 300)}));
        }
    }
}
