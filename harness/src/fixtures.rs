//! The repository's own fixture documents (crates/wac-parser/tests/{resolution,encoding}[/fail])
//! with their dependency directories, and the library pipeline the fixture harnesses use.

use std::path::{Path, PathBuf};
use wac_parser::Document;
use wac_resolver::{packages, FileSystemPackageResolver};

#[derive(Clone, Debug)]
pub struct Fixture {
    pub path: PathBuf,
    pub deps: PathBuf,
    pub source: String,
}

pub fn repo_root() -> PathBuf {
    PathBuf::from(std::env::var("WAC_REPO").unwrap_or_else(|_| "/repo".into()))
}

pub fn all() -> Vec<Fixture> {
    let base = repo_root().join("crates/wac-parser/tests");
    let mut out = Vec::new();
    for d in ["resolution", "resolution/fail", "encoding", "encoding/fail", "parser", "parser/fail"] {
        let dir = base.join(d);
        let Ok(rd) = std::fs::read_dir(&dir) else { continue };
        let mut files: Vec<PathBuf> = rd.flatten().map(|e| e.path()).filter(|p| p.extension().and_then(|e| e.to_str()) == Some("wac")).collect();
        files.sort();
        for f in files {
            if let Ok(source) = std::fs::read_to_string(&f) {
                let deps = dir.join(f.file_stem().unwrap());
                out.push(Fixture { path: f, deps, source: source.replace("\r\n", "\n") });
            }
        }
    }
    out
}

pub fn render(e: impl Into<miette::Report>, path: &Path, source: &str) -> String {
    let mut s = String::new();
    let e = e.into();
    let r = miette::GraphicalReportHandler::new()
        .with_cause_chain()
        .with_theme(miette::GraphicalTheme::unicode_nocolor())
        .render_report(&mut s, e.with_source_code(miette::NamedSource::new(path.to_string_lossy(), source.to_string())).as_ref());
    if r.is_err() {
        s.push_str("<render failed>");
    }
    s
}

pub enum PipelineResult {
    /// (embedded bytes, imported-dependencies bytes or error text)
    Encoded(Vec<u8>, Result<Vec<u8>, String>),
    /// stage, rendered diagnostic
    Failed(&'static str, String),
}

/// parse -> discover packages -> file-system resolver -> resolve -> encode (both dependency modes)
pub fn pipeline(f: &Fixture) -> PipelineResult {
    let doc = match Document::parse(&f.source) {
        Ok(d) => d,
        Err(e) => return PipelineResult::Failed("parse", render(e, &f.path, &f.source)),
    };
    let keys = match packages(&doc) {
        Ok(k) => k,
        Err(e) => return PipelineResult::Failed("discover", render(e, &f.path, &f.source)),
    };
    let resolver = FileSystemPackageResolver::new(&f.deps, Default::default(), true);
    let pkgs = match resolver.resolve(&keys) {
        Ok(p) => p,
        Err(e) => return PipelineResult::Failed("packages", render(e, &f.path, &f.source)),
    };
    let resolution = match doc.resolve(pkgs) {
        Ok(r) => r,
        Err(e) => return PipelineResult::Failed("resolve", render(e, &f.path, &f.source)),
    };
    let a = match resolution.encode(wac_graph::EncodeOptions { define_components: true, validate: false, processor: None }) {
        Ok(b) => b,
        Err(e) => return PipelineResult::Failed("encode", format!("{e:#}")),
    };
    let b = resolution
        .encode(wac_graph::EncodeOptions { define_components: false, validate: false, processor: None })
        .map_err(|e| format!("{e:#}"));
    PipelineResult::Encoded(a, b)
}
