//! Directed witnesses for the recorded findings (known_findings.json): small hand-written
//! libraries and operation scripts that reproduce each finding deterministically, so that every
//! run re-observes it (KNOWN-FINDING line) and a repaired tree makes it disappear.

use crate::compose::{Built, Op};
use crate::decode;
use crate::witgen::{self, CompModel, Library, Pkg, WorldModel};
use wac_graph::{CompositionGraph, NodeId};

#[derive(Clone, Debug)]
pub enum SOp {
    Inst(usize),
    /// explicit import named `.0` with the kind of argument `.2` of node `.1`
    ImportKindOf(&'static str, usize, &'static str),
    Alias(usize, &'static str),
    Set(usize, &'static str, usize),
    Export(usize, &'static str),
}

pub struct Script {
    pub name: &'static str,
    /// WIT text of the library packages, in dependency order
    pub libs: Vec<&'static str>,
    /// (package name, WIT text with a world `w`)
    pub comps: Vec<(&'static str, &'static str)>,
    pub ops: Vec<SOp>,
}

pub const LIB_RES: &str = "package ns:lib;\n\ninterface o0 {\n    resource r;\n}\n\ninterface o1 {\n    use o0.{r};\n    f: func(x: borrow<r>);\n}\n";
pub const LIB_VAL: &str = "package ns:lib;\n\ninterface i0 {\n    record a { x: u8 }\n    record t { y: a }\n}\n\ninterface i1 {\n    use i0.{t};\n    f: func() -> t;\n}\n";
pub const LIB_ALIAS: &str = "package ns:lib;\n\ninterface i0 {\n    resource r;\n    type t = tuple<r>;\n}\n\ninterface i1 {\n    use i0.{t as u};\n    type v = u;\n}\n";
pub const LIB_ALIAS2: &str = "package ns:lib;\n\ninterface i0 {\n    variant var4 { c1(bool), c2 }\n    record rec7 { f5: var4 }\n}\n\ninterface i1 {\n    use i0.{rec7};\n    variant var12 { c8, c9(rec7) }\n    type ali13 = var12;\n}\n";
pub const LIB_ALIAS2_OTHER: &str = "package ns:other;\n\ninterface o0 {\n    use ns:lib/i1.{ali13 as ren19};\n}\n";
pub const LIB_PLAIN: &str = "package ns:lib;\n\ninterface i1 {\n    f: func();\n}\n";

pub fn scripts() -> Vec<Script> {
    vec![
        Script {
            name: "mixed-resource-providers",
            libs: vec![LIB_RES],
            comps: vec![
                ("test:a", "package test:a;\nworld w { export ns:lib/o0; export ns:lib/o1; }\n"),
                ("test:b", "package test:b;\nworld w { import ns:lib/o1; }\n"),
            ],
            ops: vec![SOp::Inst(0), SOp::Inst(1), SOp::Alias(0, "ns:lib/o1"), SOp::Set(1, "ns:lib/o1", 2)],
        },
        Script {
            name: "exported-instance-uses-unnamed-type",
            libs: vec![LIB_VAL],
            comps: vec![("test:a", "package test:a;\nworld w { export ns:lib/i0; export ns:lib/i1; }\n")],
            ops: vec![SOp::Inst(0), SOp::Alias(0, "ns:lib/i1"), SOp::Export(1, "ns:lib/i1")],
        },
        Script {
            name: "alias-of-used-type-with-resource",
            libs: vec![LIB_ALIAS],
            comps: vec![("test:a", "package test:a;\nworld w { export ns:lib/i1; }\n")],
            ops: vec![SOp::Inst(0)],
        },
        Script {
            name: "use-of-alias-type",
            libs: vec![LIB_ALIAS2, LIB_ALIAS2_OTHER],
            comps: vec![("test:a", "package test:a;\nworld w { export ns:other/o0; export ns:lib/i1; export ns:lib/i0; }\n")],
            ops: vec![SOp::Inst(0)],
        },
        Script {
            // fixed by b1f6b94: TypeEncoder::borrow asserted a nested scope and panicked at the root
            name: "root-level-function-borrows-imported-resource",
            libs: vec![LIB_PLAIN],
            comps: vec![("test:a", "package test:a;\nworld w { resource r; import f: func(x: borrow<r>) -> r; import g: func(y: list<borrow<r>>); }\n")],
            ops: vec![SOp::Inst(0)],
        },
        Script {
            name: "explicit-import-merged",
            libs: vec![LIB_PLAIN],
            comps: vec![("test:a", "package test:a;\nworld w { import ns:lib/i1; }\n")],
            ops: vec![SOp::Inst(0), SOp::Inst(0), SOp::ImportKindOf("imp-1", 0, "ns:lib/i1"), SOp::Set(0, "ns:lib/i1", 2)],
        },
    ]
}

/// Parses a (restricted) library text into the generator's model so that the oracles' model-based
/// classification works on witnesses too: only `use` edges, resources and interface names matter.
pub fn model_of_pub(lib_text: &str) -> Pkg {
    model_of(lib_text)
}

fn model_of(lib_text: &str) -> Pkg {
    let mut pkg = Pkg { ns: "ns".into(), name: "lib".into(), version: None, ifaces: vec![] };
    let mut cur: Option<witgen::Iface> = None;
    for line in lib_text.lines() {
        let l = line.trim();
        if let Some(rest) = l.strip_prefix("package ") {
            let id = rest.trim_end_matches(';');
            let (id, version) = match id.split_once('@') {
                Some((i, v)) => (i, Some(v.to_string())),
                None => (id, None),
            };
            pkg.version = version;
            if let Some((ns, name)) = id.split_once(':') {
                pkg.ns = ns.to_string();
                pkg.name = name.to_string();
            }
        } else if let Some(rest) = l.strip_prefix("interface ") {
            if let Some(i) = cur.take() {
                pkg.ifaces.push(i);
            }
            cur = Some(witgen::Iface { name: rest.trim_end_matches('{').trim().to_string(), uses: vec![], types: vec![], funcs: vec![] });
        } else if let Some(rest) = l.strip_prefix("use ") {
            // use i0.{t as u};
            let (path, items) = rest.split_once(".{").unwrap();
            let items = items.trim_end_matches("};");
            for it in items.split(',') {
                let it = it.trim();
                let (name, as_name) = match it.split_once(" as ") {
                    Some((a, b)) => (a.trim().to_string(), Some(b.trim().to_string())),
                    None => (it.to_string(), None),
                };
                let source = pkg.ifaces.iter().find(|i| i.name == path);
                let is_resource = source
                    .map(|i| i.types.iter().any(|(n, d)| *n == name && matches!(d, witgen::TypeDef::Resource { .. })))
                    .unwrap_or(false);
                let source_id = if path.contains(':') { path.to_string() } else { pkg.iface_id(path) };
                if let Some(c) = cur.as_mut() {
                    c.uses.push(witgen::Use { path: path.to_string(), source_id, name, as_name, is_resource });
                }
            }
        } else if let Some(rest) = l.strip_prefix("resource ") {
            if let Some(c) = cur.as_mut() {
                c.types.push((rest.trim_end_matches(';').trim().to_string(), witgen::TypeDef::Resource { ctor: None, methods: vec![], statics: vec![] }));
            }
        } else if let Some(rest) = l.strip_prefix("type ") {
            // type t = tuple<r>;   /   type v = u;
            if let (Some(c), Some((name, def))) = (cur.as_mut(), rest.split_once('=')) {
                let def = def.trim().trim_end_matches(';');
                let ty = if let Some(inner) = def.strip_prefix("tuple<") {
                    witgen::Ty::Tuple(vec![witgen::Ty::Named(inner.trim_end_matches('>').to_string())])
                } else {
                    witgen::Ty::Named(def.to_string())
                };
                c.types.push((name.trim().to_string(), witgen::TypeDef::Alias(ty)));
            }
        } else if let Some(rest) = l.strip_prefix("record ") {
            if let Some(c) = cur.as_mut() {
                let name = rest.split_whitespace().next().unwrap_or("").to_string();
                c.types.push((name, witgen::TypeDef::Record(vec![("x".into(), witgen::Ty::Prim("u8"))])));
            }
        }
    }
    if let Some(i) = cur.take() {
        pkg.ifaces.push(i);
    }
    pkg
}

fn world_items(text: &str, dir: &str) -> Vec<witgen::WorldItem> {
    let mut out = Vec::new();
    for part in text.split(';') {
        let p = part.trim().trim_start_matches(|c: char| c != 'i' && c != 'e');
        if let Some(idx) = p.find(dir) {
            let rest = p[idx + dir.len()..].trim();
            if rest.starts_with("ns:") {
                out.push(witgen::WorldItem::Iface { id: rest.to_string() });
            }
        }
    }
    out
}

pub fn build_library(s: &Script) -> anyhow::Result<Library> {
    let pkg_texts: Vec<(String, String)> = s.libs.iter().enumerate().map(|(i, t)| (format!("lib{i}"), t.to_string())).collect();
    let pkgs: Vec<Pkg> = s.libs.iter().map(|t| model_of(t)).collect();
    let mut comps = Vec::new();
    for (name, text) in &s.comps {
        let bytes = witgen::build_component(&pkg_texts, text, "w")?;
        let decoded = decode::decode_any(&bytes)?;
        let world = WorldModel {
            pkg: name.to_string(),
            world: "w".into(),
            imports: world_items(text, "import "),
            exports: world_items(text, "export "),
        };
        comps.push(CompModel { name: name.to_string(), version: None, world, bytes, decoded });
    }
    Ok(Library { pkgs, pkg_texts, comps })
}

/// Executes a script through the public API.
pub fn run_script(s: &Script, lib: &Library) -> Result<Built, String> {
    let mut graph = CompositionGraph::new();
    let mut ops = Vec::new();
    let pkgs = crate::compose::register_all(&mut graph, lib, &mut ops)?;
    let mut b = Built {
        graph,
        pkgs,
        insts: vec![],
        ops,
        n_arg_edges: 0,
        n_aliases: 0,
        n_explicit_imports: 0,
        n_exports: 0,
        n_names: 0,
        rejected: 0,
        exported: vec![],
        panicked: None,
    };
    let mut nodes: Vec<NodeId> = Vec::new();
    for op in &s.ops {
        match op {
            SOp::Inst(c) => {
                let n = b.graph.instantiate(b.pkgs[*c].0);
                b.ops.push(Op { text: format!("n{n} = instantiate c{c}"), ok: true });
                b.insts.push(n);
                nodes.push(n);
            }
            SOp::ImportKindOf(name, inst, arg) => {
                let pkg = b.graph[nodes[*inst]].package().unwrap();
                let kind = *b.graph.types()[b.graph[pkg].ty()].imports.get(*arg).ok_or("no such argument")?;
                let n = b.graph.import(*name, kind).map_err(|e| e.to_string())?;
                b.ops.push(Op { text: format!("n{n} = import {name:?} (kind of n{}.{arg})", nodes[*inst]), ok: true });
                b.n_explicit_imports += 1;
                nodes.push(n);
            }
            SOp::Alias(inst, export) => {
                let n = b.graph.alias_instance_export(nodes[*inst], export).map_err(|e| e.to_string())?;
                b.ops.push(Op { text: format!("n{n} = alias n{}.{export:?}", nodes[*inst]), ok: true });
                b.n_aliases += 1;
                nodes.push(n);
            }
            SOp::Set(inst, arg, src) => {
                b.graph.set_instantiation_argument(nodes[*inst], arg, nodes[*src]).map_err(|e| e.to_string())?;
                b.ops.push(Op { text: format!("set n{}[{arg:?}] = n{}", nodes[*inst], nodes[*src]), ok: true });
                b.n_arg_edges += 1;
            }
            SOp::Export(node, name) => {
                b.graph.export(nodes[*node], *name).map_err(|e| e.to_string())?;
                b.ops.push(Op { text: format!("export n{} as {name:?}", nodes[*node]), ok: true });
                b.exported.push((name.to_string(), nodes[*node]));
                b.n_exports += 1;
            }
        }
    }
    Ok(b)
}

/// Case ids of witnesses live far above the random cases.
pub const WITNESS_BASE: u64 = 1 << 40;


/// Runs every witness script owned by this worker and hands the built composition to `f`.
pub fn for_each(ctx: &mut crate::ctx::Ctx, mut f: impl FnMut(&mut crate::ctx::Ctx, u64, &Script, &Library, &Built)) {
    for (i, script) in scripts().iter().enumerate() {
        let case = WITNESS_BASE + i as u64;
        if !ctx.mine(case) {
            continue;
        }
        ctx.begin(case);
        let lib = match build_library(script) {
            Ok(l) => l,
            Err(e) => {
                ctx.count("witness-build-failed");
                ctx.note("witness_error", serde_json::json!(format!("{}: {e:#}", script.name)));
                continue;
            }
        };
        match run_script(script, &lib) {
            Ok(built) => {
                ctx.count("witness-run");
                f(ctx, case, script, &lib, &built);
            }
            Err(e) => {
                ctx.count("witness-script-rejected");
                ctx.note("witness_error", serde_json::json!(format!("{}: {e}", script.name)));
            }
        }
    }
}
