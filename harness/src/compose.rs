//! G3 (accepted-operations part) — random compositions over a generated library, built through
//! the public `CompositionGraph` API, plus the graph-side provenance terms computed from public
//! queries only (the counterpart of `decode::Term`).

use crate::decode::{Sort, Term};
use crate::props::c15::model_track;
use crate::util::{sha256_hex, Rng};
use crate::witgen::Library;
use std::collections::{BTreeMap, BTreeSet};
use wac_graph::{CompositionGraph, NodeId, NodeKind, PackageId};
use wac_types::{ItemKind, Package};

pub fn sort_of(kind: ItemKind) -> Sort {
    match kind {
        ItemKind::Type(_) => Sort::Type,
        ItemKind::Func(_) => Sort::Func,
        ItemKind::Instance(_) => Sort::Instance,
        ItemKind::Component(_) => Sort::Component,
        ItemKind::Module(_) => Sort::Module,
        ItemKind::Value(_) => Sort::Value,
    }
}

#[derive(Clone, Debug)]
pub struct Op {
    pub text: String,
    pub ok: bool,
}

pub struct Built {
    pub graph: CompositionGraph,
    /// registered packages: (id, index into lib.comps)
    pub pkgs: Vec<(PackageId, usize)>,
    pub insts: Vec<NodeId>,
    pub ops: Vec<Op>,
    pub n_arg_edges: usize,
    pub n_aliases: usize,
    pub n_explicit_imports: usize,
    pub n_exports: usize,
    pub n_names: usize,
    pub rejected: usize,
    /// export names accepted by the graph, with the node they designate
    pub exported: Vec<(String, NodeId)>,
    /// set when an API call panicked (message) — the graph must not be used afterwards
    pub panicked: Option<String>,
}

#[derive(Clone, Debug)]
pub struct ComposeOpts {
    pub max_insts: usize,
    /// probability (in %) of wiring an argument rather than leaving it implicit
    pub wire_pct: usize,
    pub allow_back_edges: bool,
    pub explicit_imports: bool,
    pub name_all: bool,
    pub multi_export: bool,
    /// Stay out of the zones of recorded findings (DESIGN.md §8): never give one instantiation
    /// a resource-carrying interface cluster from mixed providers, never export an instance
    /// whose interface uses a type of an interface its component exports itself.
    pub avoid_known: bool,
}

impl Default for ComposeOpts {
    fn default() -> Self {
        ComposeOpts {
            max_insts: 5,
            wire_pct: 60,
            allow_back_edges: false,
            explicit_imports: true,
            name_all: false,
            multi_export: true,
            avoid_known: true,
        }
    }
}

pub fn register_all(graph: &mut CompositionGraph, lib: &Library, ops: &mut Vec<Op>) -> Result<Vec<(PackageId, usize)>, String> {
    let mut pkgs = Vec::new();
    for (i, c) in lib.comps.iter().enumerate() {
        let version = c.version.as_ref().map(|v| semver::Version::parse(v).unwrap());
        let p = Package::from_bytes(&c.name, version.as_ref(), c.bytes.clone(), graph.types_mut())
            .map_err(|e| format!("Package::from_bytes({}) failed: {e:#}", c.name))?;
        match graph.register_package(p) {
            Ok(id) => {
                ops.push(Op { text: format!("register {}", c.name), ok: true });
                pkgs.push((id, i));
            }
            Err(e) => return Err(format!("register_package({}) failed: {e}", c.name)),
        }
    }
    Ok(pkgs)
}

/// Builds a random composition. Every call goes through the public API; results are logged.
pub fn build(rng: &mut Rng, lib: &Library, opts: &ComposeOpts) -> Result<Built, String> {
    let mut graph = CompositionGraph::new();
    let mut ops = Vec::new();
    let pkgs = register_all(&mut graph, lib, &mut ops)?;
    let mut b = Built {
        graph,
        pkgs,
        insts: vec![],
        ops,
        n_arg_edges: 0,
        n_aliases: 0,
        n_explicit_imports: 0,
        n_exports: 0,
        n_names: 0,
        rejected: 0,
        exported: vec![],
        panicked: None,
    };
    let r = crate::util::catch(|| build_inner(rng, lib, opts, &mut b));
    if let Err(p) = r {
        b.panicked = Some(p.to_string());
    }
    Ok(b)
}

fn build_inner(rng: &mut Rng, lib: &Library, opts: &ComposeOpts, b: &mut Built) {
    let n_insts = rng.range(1, opts.max_insts);
    // instantiate: bias towards re-using a package several times
    for _ in 0..n_insts {
        let (pid, ci) = *rng.pick(&b.pkgs);
        let n = b.graph.instantiate(pid);
        b.ops.push(Op { text: format!("n{} = instantiate c{ci}", n), ok: true });
        b.insts.push(n);
    }
    let mut name_counter = 0;
    let mut explicit: Vec<(String, NodeId)> = Vec::new();
    let insts = b.insts.clone();
    for (pos, &inst) in insts.iter().enumerate() {
        let pkg = b.graph[inst].package().unwrap();
        let imports: Vec<(String, ItemKind)> = b.graph.types()[b.graph[pkg].ty()]
            .imports
            .iter()
            .map(|(n, k)| (n.clone(), *k))
            .collect();
        let comp_model = {
            let name = b.graph[pkg].name().to_string();
            lib.comps.iter().find(|c| c.name == name)
        };
        for (arg, kind) in imports {
            if !rng.chance(opts.wire_pct, 100) {
                continue;
            }
            if opts.avoid_known {
                if let Some(c) = comp_model {
                    if resource_entangled(lib, c, &arg) {
                        continue;
                    }
                }
            }
            let choice = rng.below(10);
            if opts.explicit_imports && choice < 3 {
                // explicit import node
                let name = if rng.chance(1, 2) {
                    arg.clone()
                } else {
                    name_counter += 1;
                    format!("imp-{name_counter}")
                };
                let node = if let Some((_, n)) = explicit.iter().find(|(nm, _)| *nm == name) {
                    *n
                } else {
                    match b.graph.import(name.clone(), kind) {
                        Ok(n) => {
                            b.ops.push(Op { text: format!("n{n} = import {name:?} (kind of n{inst}.{arg})"), ok: true });
                            b.n_explicit_imports += 1;
                            explicit.push((name.clone(), n));
                            n
                        }
                        Err(e) => {
                            b.ops.push(Op { text: format!("import {name:?} -> {e}"), ok: false });
                            b.rejected += 1;
                            continue;
                        }
                    }
                };
                set_arg(b, inst, &arg, node);
                continue;
            }
            // alias of some instance's export
            let upper = if opts.allow_back_edges { insts.len() } else { pos };
            if upper == 0 {
                continue;
            }
            // collect candidate (instance, export) pairs, same-name first
            let mut same: Vec<(NodeId, String)> = Vec::new();
            let mut other: Vec<(NodeId, String)> = Vec::new();
            for &src in &insts[..upper] {
                let spkg = b.graph[src].package().unwrap();
                for (en, ek) in &b.graph.types()[b.graph[spkg].ty()].exports {
                    if *en == arg {
                        same.push((src, en.clone()));
                    } else if sort_of(*ek) == sort_of(kind) {
                        other.push((src, en.clone()));
                    }
                }
            }
            let cand = if !same.is_empty() && (other.is_empty() || rng.chance(4, 5)) {
                Some(rng.pick(&same).clone())
            } else if !other.is_empty() {
                Some(rng.pick(&other).clone())
            } else {
                None
            };
            if let Some((src, export)) = cand {
                match b.graph.alias_instance_export(src, &export) {
                    Ok(alias) => {
                        b.ops.push(Op { text: format!("n{alias} = alias n{src}.{export:?}"), ok: true });
                        b.n_aliases += 1;
                        set_arg(b, inst, &arg, alias);
                    }
                    Err(e) => {
                        b.ops.push(Op { text: format!("alias n{src}.{export:?} -> {e}"), ok: false });
                        b.rejected += 1;
                    }
                }
            }
        }
    }
    // exports
    let mut used_names: BTreeSet<String> = BTreeSet::new();
    for &inst in &insts {
        let pkg = b.graph[inst].package().unwrap();
        let exports: Vec<String> = b.graph.types()[b.graph[pkg].ty()].exports.keys().cloned().collect();
        let comp_model = {
            let name = b.graph[pkg].name().to_string();
            lib.comps.iter().find(|c| c.name == name)
        };
        for en in exports {
            if !rng.chance(1, 3) {
                continue;
            }
            if opts.avoid_known {
                if let Some(c) = comp_model {
                    if uses_own_export(lib, c, &en) || uses_instance_provided_type(lib, &b.graph, inst, &en) {
                        continue;
                    }
                }
            }
            let alias = match b.graph.alias_instance_export(inst, &en) {
                Ok(a) => a,
                Err(_) => continue,
            };
            b.ops.push(Op { text: format!("n{alias} = alias n{inst}.{en:?}"), ok: true });
            b.n_aliases += 1;
            let mut names = vec![if rng.chance(1, 2) && !used_names.contains(&en) {
                en.clone()
            } else {
                name_counter += 1;
                format!("exp-{name_counter}")
            }];
            if opts.multi_export && rng.chance(1, 5) {
                name_counter += 1;
                names.push(format!("exp-{name_counter}"));
            }
            for name in names {
                // a node that is already exported keeps its first export; exporting the same
                // node twice is exercised only when multi_export is on
                if b.graph[alias].export_name().is_some() && !opts.multi_export {
                    continue;
                }
                match b.graph.export(alias, name.clone()) {
                    Ok(()) => {
                        b.ops.push(Op { text: format!("export n{alias} as {name:?}"), ok: true });
                        b.exported.push((name.clone(), alias));
                        used_names.insert(name);
                        b.n_exports += 1;
                    }
                    Err(e) => {
                        b.ops.push(Op { text: format!("export n{alias} as {name:?} -> {e}"), ok: false });
                        b.rejected += 1;
                    }
                }
            }
        }
        let whole_ok = !opts.avoid_known
            || comp_model
                .map(|c| {
                    !c.world.exports.iter().any(|e| {
                        uses_own_export(lib, c, e.extern_name()) || uses_instance_provided_type(lib, &b.graph, inst, e.extern_name())
                    })
                })
                .unwrap_or(true);
        if whole_ok && rng.chance(1, 6) {
            name_counter += 1;
            let name = format!("exp-{name_counter}");
            if b.graph.export(inst, name.clone()).is_ok() {
                b.ops.push(Op { text: format!("export n{inst} as {name:?}"), ok: true });
                b.exported.push((name.clone(), inst));
                b.n_exports += 1;
            }
        }
    }
    // names
    let ids: Vec<NodeId> = b.graph.node_ids().collect();
    for id in ids {
        if opts.name_all || rng.chance(1, 3) {
            let name = format!("nm{}", id);
            b.graph.set_node_name(id, name.clone());
            b.ops.push(Op { text: format!("name n{id} {name:?}"), ok: true });
            b.n_names += 1;
        }
    }
}

fn set_arg(b: &mut Built, inst: NodeId, arg: &str, src: NodeId) {
    match b.graph.set_instantiation_argument(inst, arg, src) {
        Ok(()) => {
            b.ops.push(Op { text: format!("set n{inst}[{arg:?}] = n{src}"), ok: true });
            b.n_arg_edges += 1;
        }
        Err(e) => {
            b.ops.push(Op { text: format!("set n{inst}[{arg:?}] = n{src} -> {e}"), ok: false });
            b.rejected += 1;
        }
    }
}

// ---------------------------------------------------------------------------------------------
// graph-side view, from public queries only

#[derive(Clone, Debug)]
pub struct GraphView {
    /// unsatisfied (instantiation, arg name, sort)
    pub unsatisfied: Vec<(NodeId, String, Sort)>,
    pub explicit: Vec<(String, NodeId, Sort)>,
    /// for instance-kinded explicit imports: the id of the interface they import, if it has one
    pub explicit_iid: BTreeMap<String, String>,
    /// canonical implicit import name for each unsatisfied name
    pub canonical: BTreeMap<String, String>,
    pub has_cycle: bool,
}

/// Groups names by equality / semver track (M2) and returns name -> canonical (highest) name.
pub fn canonical_names(names: &BTreeSet<String>) -> BTreeMap<String, String> {
    let mut out = BTreeMap::new();
    for n in names {
        let mut best = n.clone();
        if let Some((base, track, v)) = model_track(n) {
            let mut best_v = v;
            for m in names {
                if let Some((b2, t2, v2)) = model_track(m) {
                    if b2 == base && t2 == track && v2 > best_v {
                        best_v = v2;
                        best = m.clone();
                    }
                }
            }
        }
        out.insert(n.clone(), best);
    }
    out
}

pub fn view(graph: &CompositionGraph) -> GraphView {
    let mut unsatisfied = Vec::new();
    let mut explicit = Vec::new();
    let mut explicit_iid = BTreeMap::new();
    let mut edges: Vec<(NodeId, NodeId)> = Vec::new();
    for id in graph.node_ids() {
        let node = &graph[id];
        match node.kind() {
            NodeKind::Instantiation(_) => {
                let pkg = node.package().unwrap();
                let world = &graph.types()[graph[pkg].ty()];
                let passed: BTreeSet<String> = graph
                    .get_instantiation_arguments(id)
                    .map(|(n, _)| n.to_string())
                    .collect();
                for (src_name, src) in graph.get_instantiation_arguments(id) {
                    let _ = src_name;
                    edges.push((src, id));
                }
                for (n, k) in &world.imports {
                    if !passed.contains(n) {
                        unsatisfied.push((id, n.clone(), sort_of(*k)));
                    }
                }
            }
            NodeKind::Import(name) => {
                if let ItemKind::Instance(iface) = node.item_kind() {
                    if let Some(iid) = &graph.types()[iface].id {
                        explicit_iid.insert(name.clone(), iid.clone());
                    }
                }
                explicit.push((name.clone(), id, sort_of(node.item_kind())))
            }
            NodeKind::Alias => {
                if let Some((src, _)) = graph.get_alias_source(id) {
                    edges.push((src, id));
                }
            }
            NodeKind::Definition => {}
        }
    }
    let mut names: BTreeSet<String> = unsatisfied.iter().map(|(_, n, _)| n.clone()).collect();
    // explicit imports take part in the grouping of names on a track
    for (n, _, _) in &explicit {
        names.insert(n.clone());
    }
    let canonical = canonical_names(&names);
    // cycle detection over argument + alias edges
    let ids: Vec<NodeId> = graph.node_ids().collect();
    let mut indeg: BTreeMap<NodeId, usize> = ids.iter().map(|i| (*i, 0)).collect();
    for (_, t) in &edges {
        *indeg.get_mut(t).unwrap() += 1;
    }
    let mut queue: Vec<NodeId> = indeg.iter().filter(|(_, d)| **d == 0).map(|(i, _)| *i).collect();
    let mut seen = 0;
    while let Some(n) = queue.pop() {
        seen += 1;
        for (s, t) in &edges {
            if *s == n {
                let d = indeg.get_mut(t).unwrap();
                *d -= 1;
                if *d == 0 {
                    queue.push(*t);
                }
            }
        }
    }
    GraphView { unsatisfied, explicit, explicit_iid, canonical, has_cycle: seen != ids.len() }
}

pub fn package_import_name(p: &Package) -> String {
    match p.version() {
        Some(v) => format!("unlocked-dep=<{}@{{>={}}}>", p.name(), v),
        None => format!("unlocked-dep=<{}>", p.name()),
    }
}

/// Provenance term of a node, computed from public graph queries.
/// `explicit_under_own_name`: whether explicit imports are expected under their own name
/// (what the property statement says) rather than the canonical name of their track.
pub fn node_term(
    graph: &CompositionGraph,
    v: &GraphView,
    id: NodeId,
    define_components: bool,
    memo: &mut BTreeMap<NodeId, Term>,
    depth: usize,
) -> Term {
    if let Some(t) = memo.get(&id) {
        return t.clone();
    }
    if depth > 200 {
        return Term::Other("cycle".into());
    }
    let node = &graph[id];
    let t = match node.kind() {
        NodeKind::Import(name) => Term::Import(name.clone()),
        NodeKind::Definition => Term::Other(format!("definition {:?}", node.export_name())),
        NodeKind::Alias => match graph.get_alias_source(id) {
            Some((src, export)) => {
                let export = export.to_string();
                Term::AliasExport(Box::new(node_term(graph, v, src, define_components, memo, depth + 1)), export)
            }
            None => Term::Other("alias without source".into()),
        },
        NodeKind::Instantiation(_) => {
            let pkg = &graph[node.package().unwrap()];
            let comp = if define_components {
                Term::Embedded(sha256_hex(pkg.bytes()))
            } else {
                Term::Import(package_import_name(pkg))
            };
            let mut args = BTreeMap::new();
            let passed: Vec<(String, NodeId)> = graph
                .get_instantiation_arguments(id)
                .map(|(n, s)| (n.to_string(), s))
                .collect();
            for (n, src) in passed {
                let s = sort_of(graph[src].item_kind());
                args.insert(n, (s, node_term(graph, v, src, define_components, memo, depth + 1)));
            }
            for (inst, n, s) in &v.unsatisfied {
                if *inst == id {
                    let canon = v.canonical.get(n).cloned().unwrap_or_else(|| n.clone());
                    args.insert(n.clone(), (*s, Term::Import(canon)));
                }
            }
            Term::Inst { comp: Box::new(comp), args }
        }
    };
    memo.insert(id, t.clone());
    t
}

pub fn ops_json(ops: &[Op]) -> serde_json::Value {
    serde_json::Value::Array(
        ops.iter()
            .map(|o| serde_json::Value::String(if o.ok { o.text.clone() } else { format!("[rejected] {}", o.text) }))
            .collect(),
    )
}


impl GraphView {
    /// Key under which an import name is compared when import *merging* is to be ignored:
    /// explicit instance imports stand for their interface id, and names on one semver track
    /// stand for the track.
    pub fn merge_key(&self, name: &str) -> String {
        let n = self.explicit_iid.get(name).map(|s| s.as_str()).unwrap_or(name);
        match model_track(n) {
            Some((base, track, _)) => format!("{base}@track:{track:?}"),
            None => n.to_string(),
        }
    }

    pub fn normalize(&self, t: &Term) -> Term {
        match t {
            Term::Import(n) => Term::Import(self.merge_key(n)),
            Term::Inst { comp, args } => Term::Inst {
                comp: Box::new(self.normalize(comp)),
                args: args.iter().map(|(k, (s, t))| (k.clone(), (*s, self.normalize(t)))).collect(),
            },
            Term::AliasExport(i, n) => Term::AliasExport(Box::new(self.normalize(i)), n.clone()),
            other => other.clone(),
        }
    }
}


/// Whether import `arg` of component `c` belongs to a cluster of its imports that are connected
/// by `use` and in which some interface defines (or uses) a resource. (Generator's model only.)
pub fn resource_entangled(lib: &Library, c: &crate::witgen::CompModel, arg: &str) -> bool {
    use crate::witgen::{find_iface, TypeDef};
    let imports: Vec<String> = c.decoded.imports.iter().map(|i| i.name.clone()).collect();
    // undirected use-graph over the component's imports
    let mut cluster = vec![arg.to_string()];
    let mut changed = true;
    while changed {
        changed = false;
        for a in &imports {
            if cluster.contains(a) {
                continue;
            }
            let same = |x: &str, y: &str| x == y || crate::props::c15::model_compatible(x, y);
            let connected = cluster.iter().any(|m| {
                find_iface(&lib.pkgs, m).map(|i| i.uses.iter().any(|u| same(&u.source_id, a))).unwrap_or(false)
                    || find_iface(&lib.pkgs, a).map(|i| i.uses.iter().any(|u| same(&u.source_id, m))).unwrap_or(false)
                    || same(m, a)
            });
            if connected {
                cluster.push(a.clone());
                changed = true;
            }
        }
    }
    if cluster.len() < 2 {
        return false;
    }
    cluster.iter().any(|m| {
        find_iface(&lib.pkgs, m)
            .map(|i| i.types.iter().any(|(_, d)| matches!(d, TypeDef::Resource { .. })) || i.uses.iter().any(|u| u.is_resource))
            .unwrap_or(false)
    })
}

/// Whether exported interface `export` of component `c` uses (transitively) a type of an
/// interface that `c` itself exports.
pub fn uses_own_export(lib: &Library, c: &crate::witgen::CompModel, export: &str) -> bool {
    let exported: Vec<&str> = c.world.exports.iter().map(|e| e.extern_name()).collect();
    crate::witgen::use_closure(&lib.pkgs, export)
        .iter()
        .any(|y| exported.iter().any(|e| *e == y.as_str() || crate::props::c15::model_compatible(e, y)))
}

/// Whether exported interface `export` of instantiation `inst` uses (transitively) a type of an
/// interface that the instantiation receives from another *instance* (rather than from an
/// import of the composition): such a type has no name at the root, so exporting the instance
/// is not valid (recorded finding: wac accepts the export and fails validation at encode time).
pub fn uses_instance_provided_type(lib: &Library, graph: &CompositionGraph, inst: NodeId, export: &str) -> bool {
    let closure = crate::witgen::use_closure(&lib.pkgs, export);
    graph.get_instantiation_arguments(inst).any(|(name, src)| {
        !matches!(graph[src].kind(), NodeKind::Import(_))
            && closure.iter().any(|y| y == name || crate::props::c15::model_compatible(y, name))
    })
}
