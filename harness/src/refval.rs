//! V1 — the reference validator and its subtype relation.
//!
//! wasmparser insists that both sides of a subtype query come from one validator, so the
//! binaries to compare are nested (raw) in a wrapper component which is validated once.

use wasm_encoder::ComponentBuilder;
use wasmparser::component_types::{ComponentEntityType, ComponentTypeId};
use wasmparser::types::Types;

pub struct Nested {
    pub types: Types,
    pub n: usize,
}

/// Validates a wrapper component that embeds `bins` as nested components 0..n.
pub fn nest(bins: &[&[u8]]) -> Result<Nested, String> {
    let mut b = ComponentBuilder::default();
    for bin in bins {
        b.component_raw(None, bin);
    }
    let bytes = b.finish();
    let mut v = wasmparser::Validator::new_with_features(wasmparser::WasmFeatures::all());
    let types = v.validate_all(&bytes).map_err(|e| format!("wrapper does not validate: {e}"))?;
    Ok(Nested { types, n: bins.len() })
}

impl Nested {
    pub fn component(&self, i: usize) -> ComponentTypeId {
        self.types.as_ref().component_at(i as u32)
    }

    pub fn import_of(&self, i: usize, name: &str) -> Option<ComponentEntityType> {
        let tr = self.types.as_ref();
        tr.get(self.component(i))?.imports.get(name).copied()
    }

    pub fn export_of(&self, i: usize, name: &str) -> Option<ComponentEntityType> {
        let tr = self.types.as_ref();
        tr.get(self.component(i))?.exports.get(name).copied()
    }

    pub fn import_names(&self, i: usize) -> Vec<String> {
        let tr = self.types.as_ref();
        tr.get(self.component(i)).map(|c| c.imports.keys().cloned().collect()).unwrap_or_default()
    }

    pub fn export_names(&self, i: usize) -> Vec<String> {
        let tr = self.types.as_ref();
        tr.get(self.component(i)).map(|c| c.exports.keys().cloned().collect()).unwrap_or_default()
    }

    pub fn is_subtype(&self, a: &ComponentEntityType, b: &ComponentEntityType) -> bool {
        let tr = self.types.as_ref();
        ComponentEntityType::is_subtype_of(a, tr, b, tr)
    }

    /// Is nested component `i` (as a component) a subtype of entity `b`?
    pub fn component_is_subtype_of(&self, i: usize, b: &ComponentEntityType) -> bool {
        self.is_subtype(&ComponentEntityType::Component(self.component(i)), b)
    }

    /// For an entity that is a *type export of a component type* (as wit-component and wac encode
    /// interfaces and worlds), the imports/exports of that component type.
    pub fn component_type_of(&self, e: &ComponentEntityType) -> Option<&wasmparser::component_types::ComponentType> {
        let tr = self.types.as_ref();
        match e {
            ComponentEntityType::Component(id) => tr.get(*id),
            ComponentEntityType::Type { referenced, .. } => match referenced {
                wasmparser::component_types::ComponentAnyTypeId::Component(id) => tr.get(*id),
                _ => None,
            },
            _ => None,
        }
    }
}
