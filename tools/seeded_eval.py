#!/usr/bin/env python3
"""Applies one seeded change to /repo, runs the quick checks, records which of them report a
violation, and restores /repo.

usage: tools/seeded_eval.py <seeded-dir> [--props C01,C02,...] [--tier quick|thorough] [--budget S]

The change is applied with `git -C /repo apply` and undone with `git -C /repo checkout -- .`;
nothing is ever committed in /repo.  Result: <seeded-dir>/result.json
"""
import json, os, re, subprocess, sys, time
V = os.path.dirname(os.path.dirname(os.path.abspath(__file__)))
REPO = os.environ.get("WAC_REPO", "/repo")
HARNESS_PROPS = ["C01", "C02", "C03", "C04", "C05", "C06", "C07", "C08", "C09", "C10", "C11", "C12", "C13", "C14", "C15", "C16", "C17"]

def sh(cmd, **kw):
    return subprocess.run(cmd, stdout=subprocess.PIPE, stderr=subprocess.STDOUT, text=True, **kw)

def main():
    d = os.path.abspath(sys.argv[1])
    args = sys.argv[2:]
    tier, props, budget = "quick", None, None
    while args:
        a = args.pop(0)
        if a == "--props":
            props = args.pop(0).split(",")
        elif a == "--tier":
            tier = args.pop(0)
        elif a == "--budget":
            budget = args.pop(0)
    meta = json.load(open(os.path.join(d, "meta.json")))
    patch = os.path.join(d, "patch.diff")
    if sh(["git", "-C", REPO, "status", "--porcelain"]).stdout.strip():
        print("refusing: /repo has uncommitted changes")
        return 2
    touched = sh(["git", "-C", REPO, "apply", "--numstat", patch]).stdout
    if props is None:
        props = list(HARNESS_PROPS)
        target = meta.get("property")
        if "wac-resolver" in touched or target in ("C18", "C19", "C20"):
            props += ["C18", "C20"]
        if touched.strip() and (re.search(r"\tsrc/", touched) or "wac-resolver" in touched or target == "C19" or True):
            props += ["C19"]
        if target and target not in props:
            props.append(target)
    r = sh(["git", "-C", REPO, "apply", patch])
    if r.returncode != 0:
        print("patch does not apply:", r.stdout)
        return 2
    results, caught = {}, []
    t0 = time.time()
    try:
        for p in props:
            env = dict(os.environ)
            env.setdefault("VERIF_SEED", "1")
            if budget:
                env["VERIF_BUDGET_S"] = budget
            t = time.time()
            r = sh([os.path.join(V, "check"), p, "--tier", tier], cwd=V, env=env)
            sigs = re.findall(r"^\s+sig=(.*)$", r.stdout, re.M)
            results[p] = {"exit": r.returncode, "violations": sigs[:6], "wall_s": round(time.time() - t, 1)}
            if r.returncode == 1:
                caught.append(f"{p} ({sigs[0] if sigs else '?'})")
            elif r.returncode != 0:
                tail = r.stdout.strip().splitlines()[-1:] if r.stdout.strip() else []
                results[p]["note"] = tail[0][:300] if tail else ""
            print(p, r.returncode, sigs[:2], flush=True)
    finally:
        sh(["git", "-C", REPO, "checkout", "--", "."])
        # the evidence files written during these runs describe the CHANGED tree: put back the
        # committed ones (evidence under /verif/evidence must come from runs against /repo itself)
        sh(["git", "-C", V, "checkout", "--", "evidence"])
        left = sh(["git", "-C", REPO, "status", "--porcelain"]).stdout.strip()
        if left:
            print("WARNING: /repo not clean after restore:", left)
    target = meta.get("property")
    out = {"tier": tier, "props_run": props, "results": results, "wall_s": round(time.time() - t0, 1),
           "caught_by": ", ".join(caught) if caught else "nothing",
           "target_caught": any(c.startswith(str(target)) for c in caught)}
    old = {}
    rp = os.path.join(d, "result.json")
    if os.path.exists(rp):
        old = json.load(open(rp))
    if old.get("note"):
        out["note"] = old["note"]
    json.dump(out, open(rp, "w"), indent=1)
    print("caught by:", out["caught_by"])
    return 0

if __name__ == "__main__":
    sys.exit(main())
