#!/usr/bin/env python3
"""Delta-debug a C05 replay input ({"text":..,"deps":[..]}): keep removing blank-line separated
blocks, then lines, while `worker debug-c05` still prints the given substring.
usage: ddmin_c05.py <worker-out.json|input.json> <substring> [sig-substring]"""
import json, subprocess, sys
src = json.load(open(sys.argv[1]))
needle = sys.argv[2]
if 'violations' in src:
    vs = [v for v in src['violations'] if (sys.argv[3] if len(sys.argv) > 3 else '') in v['sig']]
    vs.sort(key=lambda v: len(v['input']['text']))
    src = vs[0]['input']
def bad(inp):
    json.dump(inp, open('/tmp/ddmin_c05.json', 'w'))
    r = subprocess.run(['/verif/target/release/worker', 'debug-c05', '--replay-input', '/tmp/ddmin_c05.json'], capture_output=True, text=True)
    return needle in (r.stdout + r.stderr)
assert bad(src), "does not reproduce"
def shrink(units, join, rebuild):
    changed = True
    while changed:
        changed = False
        for i in range(len(units)):
            t = units[:i] + units[i + 1:]
            if bad(rebuild(join.join(t))):
                units[:] = t
                changed = True
                break
    return join.join(units)
text, deps = src['text'], list(src['deps'])
for sep in ('\n\n', '\n'):
    text = shrink(text.split(sep), sep, lambda t: {'text': t, 'deps': deps})
    for k in range(len(deps)):
        deps[k] = shrink(deps[k].split(sep), sep, lambda t: {'text': text, 'deps': deps[:k] + [t] + deps[k + 1:]})
out = {'text': text, 'deps': deps}
json.dump(out, open('/tmp/ddmin_c05.min.json', 'w'))
print(text)
print('--- deps')
print('\n'.join(deps))
