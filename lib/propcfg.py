"""Per-property configuration of the driver: shards, budgets, observation floors, evidence text."""

PROPS = {}

PROPS["C15"] = {
    "shards": 16,
    "quick_budget_s": 60,
    "thorough_budget_s": 600,
    "floors": {"any": {"pair:compatible": 1000, "pair:incompatible": 1000, "get:alternate": 1000,
                       "get:exact": 1000, "get:none": 1000, "maps": 100000}},
    "rule": "Exhaustive: every ordered pair of a 242-name universe (2 base names x major,minor,patch in 0..3 x "
            "pre-release none|rc x build none|meta + unversioned + 24 malformed/odd spellings) is given to "
            "are_semver_compatible and to a model built on semver::Version::parse only; every ordered selection of "
            "<=4 names from a 22-name sub-universe is inserted into a NameMap and every sub-universe name is looked up. "
            "Random: maps of 2..7 random names (large numbers, odd pre/build parts, malformed versions) with 4 extra "
            "queries. Non-trivial/distinct: a pair with a != b, or a map insertion order; counted by hash of the "
            "names involved.",
    "exhaustive_note": "the pair universe and the <=4-of-22 insertion orders are enumerated completely; the random part is not",
    "assumptions": ["semver::Version::parse (crate semver 1.0.22) is the definition of a valid version and of version order",
                    "two entries that differ only in build metadata tie for 'highest'; either is accepted"],
}

PROPS["C15"].update({
    "technique": "runtime monitor: reference-model oracle (semver-crate track model) over exhaustive small universe + random inputs",
    "level_text": "Every call of are_semver_compatible / NameMap::insert / NameMap::get made by the workload is compared online with an independent model; the small universe (all ordered pairs, all insertion orders of <=4 entries) is enumerated completely, larger names are sampled. Held-on-observed-executions, not a proof.",
    "level_note": "Trusts the semver crate's parser and ordering as the definition of versions; universe bounds as stated in evidence.rule.",
})

# Properties not claimed, with the reason (kept current by hand).
NOT_APPLICABLE = {}

# Commits in /repo that add the guarded hooks.
HOOK_COMMITS = ["26af993", "a795da4", "02f2d5d"]
