"""Per-property configuration of the driver: shards, budgets, observation floors, evidence text."""

PROPS = {}

PROPS["C15"] = {
    "shards": 16,
    "quick_budget_s": 60,
    "thorough_budget_s": 600,
    "floors": {"any": {"pair:compatible": 1000, "pair:incompatible": 1000, "get:alternate": 1000,
                       "get:exact": 1000, "get:none": 1000, "maps": 100000,
                       "aggregator-pair:merged": 20, "aggregator-pair:separate": 200}},
    "rule": "Aggregator lane: every ordered pair of the 22-name map universe (it contains 1.x / 10.x, 0.1 / 0.10 and names that are prefixes of one another) is aggregated "
            "as two empty instance imports through TypeAggregator; they must end as one import (named for the higher version) exactly when the track relation says compatible. "
            "Exhaustive: every ordered pair of a 242-name universe (2 base names x major,minor,patch in 0..3 x "
            "pre-release none|rc x build none|meta + unversioned + 24 malformed/odd spellings) is given to "
            "are_semver_compatible and to a model built on semver::Version::parse only; every ordered selection of "
            "<=4 names from a 22-name sub-universe is inserted into a NameMap and every sub-universe name is looked up. "
            "Random: maps of 2..7 random names (large numbers, odd pre/build parts, malformed versions) with 4 extra "
            "queries. Non-trivial/distinct: a pair with a != b, or a map insertion order; counted by hash of the "
            "names involved.",
    "exhaustive_note": "the pair universe and the <=4-of-22 insertion orders are enumerated completely; the random part is not",
    "assumptions": ["semver::Version::parse (crate semver 1.0.22) is the definition of a valid version and of version order",
                    "two entries that differ only in build metadata tie for 'highest'; either is accepted"],
}

PROPS["C15"].update({
    "technique": "runtime monitor: reference-model oracle (semver-crate track model) over exhaustive small universe + random inputs",
    "level_text": "Every call of are_semver_compatible / NameMap::insert / NameMap::get made by the workload is compared online with an independent model; the small universe (all ordered pairs, all insertion orders of <=4 entries) is enumerated completely, larger names are sampled. Held-on-observed-executions, not a proof.",
    "level_note": "Trusts the semver crate's parser and ordering as the definition of versions; universe bounds as stated in evidence.rule.",
})

# Properties not claimed, with the reason (kept current by hand).
PROPS["C20"] = {
    "shards": 16,
    "quick_budget_s": 120,
    "thorough_budget_s": 1200,
    "worker": "worker-reg",
    "extra_builds": ["reg"],
    "stuck_s": 120,
    "floors": {"any": {"histories-fully-correct": 350, "errors-attributed-to-the-right-key": 60, "histories-with-keys-sharing-a-name": 250,
                       "histories-completing-out-of-request-order": 150, "keys-with-right-content": 1000, "releases-published": 100,
                       "histories:keys=1": 30, "histories:keys=6": 30}},
    "rule": "Each of the 16 worker processes starts an in-process Warg server (loopback, operator key of the repository's own test support) "
            "and publishes 4 packages with 7 releases in non-monotonic version order (so latest != last published; one package has only a "
            "pre-release); every release is a valid component whose custom section names `name@version` and pads it to 40 B .. 400 KB, so "
            "returned bytes identify the release. A history is one RegistryPackageResolver::resolve call (fresh client cache) on 1-6 distinct "
            "keys in random order with distinct spans; half of the histories ask for one package several times (unversioned and at several "
            "versions), a quarter contain keys naming a missing package, a missing version or the pre-release-only package. The guarded hook "
            "(feature `verif`) delays download task i by rank(i)*12 ms for a random permutation (a quarter of the histories undelayed) and "
            "records the order in which results are received; the tokio runtime has 1, 2, 4 or 8 worker threads depending on the shard. "
            "Oracle: without faults the result has exactly the requested keys and each key's bytes carry the tag published under its name and "
            "version (highest non-pre-release for unversioned keys); with faults the call fails with PackageDoesNotExist / "
            "PackageVersionDoesNotExist / PackageNoReleases whose name, version and span are those of a requested key with that fault. "
            "Non-trivial: every history; distinct by key count, key pattern and the completion order observed.",
    "assumptions": ["the completion order is the order in which `resolve` receives the task results (hook `completed`), forced by the delays and perturbed by content size and worker count; "
                    "orders that need the server itself to answer out of order are not forced",
                    "when several keys of one request are faulty any one of them may be reported"],
    "technique": "runtime monitor: history checker with unique content tags + schedule perturbation through a guarded delay/observe hook",
    "level_text": "Every resolve call is a recorded history (keys, delays, observed completion order, result) checked against what the harness itself published.",
    "level_note": "Held on the observed histories and completion orders; evidence lists how many histories completed out of request order.",
}

NOT_APPLICABLE = {}

# Commits in /repo that add the guarded hooks.
HOOK_COMMITS = ["26af993", "a795da4", "02f2d5d"]

_COMPOSE_RULE = ("Each case draws a WIT library (1-4 interfaces with records/variants/enums/flags/lists/options/results/"
                 "tuples/resources with constructors/methods/statics/borrows, chains of cross-interface `use` with renames, "
                 "optionally a second version on the same semver track, one on another track and a second package using "
                 "types across packages), builds 2-5 real components from generated worlds with wit-component's dummy "
                 "module, then builds a composition through the public CompositionGraph API: 1-6 instantiations (packages "
                 "re-used), each argument left implicit, wired to an alias of another instance's export (same-name "
                 "candidates preferred, other same-kind candidates tried so rejections are exercised, occasionally back "
                 "edges giving cycles) or to an explicit import node; exports under inferred/fresh/several names; node names. ")

PROPS["C01"] = {
    "shards": 16,
    "quick_budget_s": 60,
    "thorough_budget_s": 900,
    "floors": {"any": {"compositions": 200, "encode:ok": 400, "validated-by-harness": 400, "arg-edges": 100,
                       "implicit-args": 100, "encode:implicit-import-conflict": 1}},
    "rule": _COMPOSE_RULE + "Every composition is encoded under the 4 option combinations (dependencies embedded|imported x "
            "validate on|off); each Ok output is validated by the harness with wasmparser (all features). Non-trivial: >=1 "
            "instantiation and (>=1 argument edge or >=1 implicit import); distinct by hash of the operation sequence "
            "(node numbers abstracted) + world shapes.",
    "assumptions": ["wasmparser::Validator(WasmFeatures::all()) 0.247 is the reference validator (the only one available offline); "
                    "independence is of invocation, not implementation",
                    "wit-parser/wit-component 0.247 produce valid components for the generated worlds (checked: ComponentEncoder validates)",
                    "the reference validator's hard resource limits are outside the property: a chain of 1000 interfaces each `use`-ing the previous one encodes to 18 MB "
                    "and is refused with 'effective type size exceeds the limit of 1000000' (observed by hand); generated compositions stay far below these limits"],
    "technique": "runtime monitor: reference-validator oracle on every encode output of generated compositions (4 option combinations)",
    "level_text": "Every encode() result of the workload is observed: Ok bytes are validated by the harness itself, ValidationFailure "
                  "and panics are refuting events, validate=true/false must give identical bytes. Reaches what fixtures cannot by "
                  "generating thousands of libraries x topologies; failures are attributed to a cause with the generator's model so "
                  "that recorded findings do not mask new ones.",
    "level_note": "Trusts wasmparser's validator and wit-component's encoder. Held on the shapes generated, not for all libraries.",
}

PROPS["C02"] = {
    "shards": 16,
    "quick_budget_s": 60,
    "thorough_budget_s": 900,
    "floors": {"any": {"decoded-outputs": 400, "instantiations-compared": 400, "exports-compared": 200,
                       "names-compared": 300, "arg-edges": 150}},
    "rule": _COMPOSE_RULE + "Biased to what validity cannot see (2-3 packages instantiated 2-6 times, 60-100% of arguments wired, "
            "nodes exported under several names, half of the runs name every node). Both dependency modes are encoded without "
            "wac's validation and read back by the independent decoder; instantiation terms (multiset), export bindings, "
            "embedded digests / component imports and the name section are compared with terms computed from public graph "
            "queries. Non-trivial: >=2 instantiations, >=1 explicit argument edge, >=1 export; distinct by operation-sequence hash.",
    "assumptions": ["wasmparser's section *reader* (not its validator, not wac's decoder) splits the payloads; the index-space replay is the harness's own",
                    "an export introduces a new index denoting the same item (component-model rule)"],
    "technique": "runtime monitor: translation validation of every encode output by an independent decoder against public graph queries",
    "level_text": "Each output binary is decoded independently into provenance terms (import / embedded digest / instantiation with named "
                  "arguments / alias of export) and compared, up to renumbering, with the same terms derived from the graph's public "
                  "queries; catches swapped equal-typed arguments, wrong alias sources, neighbouring-index exports, double embedding and "
                  "misattributed names, which all still validate.",
    "level_note": "Differences explained solely by wac's merging of imports of one interface / semver track are reported under one "
                  "recorded finding (normalised comparison); everything else is a violation.",
}

PROPS["C03"] = {
    "shards": 16,
    "quick_budget_s": 60,
    "thorough_budget_s": 900,
    "floors": {"any": {"order:interfaces-equal": 8000, "order:interfaces-equal-with-several-imports": 5000, "pure-implicit-groups-checked": 200, "encode:ok": 300, "compositions-with-shared-implicit-import": 100, "compositions-with-versioned-group": 10,
                       "shared-import-union-checked": 300, "encode:implicit-import-conflict": 5}},
    "rule": _COMPOSE_RULE + "Workload 1: Libraries always carry versions (same track, other track, unversioned second package); 0-80% of arguments "
            "wired so that many stay implicit. Expected import names = explicit names + one canonical (highest) name per semver "
            "track of unsatisfied argument names (model M2 on the semver crate); output names must equal expected + a subset of the "
            "generator's `use` closure; no two imports on one track; every shared instance import must export at least the names "
            "each sharer's own binary import requires (read by the independent decoder); exports and their kinds; imports() "
            "listing; identical non-component imports in both dependency modes; ImplicitImportConflict exactly when an unsatisfied "
            "name equals an explicit name; a group made only of unsatisfied argument names on one semver track must be imported "
            "under its highest version (versions that gain a digit included). Non-trivial: >=2 instantiations sharing an import "
            "group, or a versioned group. Workload 2 (creation order): a well-formed WAC program from C04's generator is re-ordered "
            "by a random dependency-preserving permutation of its statements (export statements keep their relative order); both "
            "orders must resolve and encode, and the decoded interfaces (import name, sort and the names its instance type exports; "
            "export name and sort) must be equal.",
    "assumptions": ["'the interfaces those types depend on' is checked as an upper bound (subset of the use-closure in the generator's model)",
                    "same-track versions generated by the library generator are compatible by construction (later = earlier + functions)"],
    "technique": "runtime monitor: reference model of implied imports/exports (semver-track grouping) vs independently decoded import/export sections",
    "level_text": "Every encodable composition's import and export sections are compared with a model computed from the graph view and the "
                  "generator's knowledge of the library; conflicts are predicted and compared with the encode error. Violations are "
                  "attributed to a cause so the recorded import-merging findings do not mask a wrong canonical name or a lost import.",
    "level_note": "Inside a group of names that wac merges (same interface id / same semver track) only the existence of an import of the group is demanded and the deviation is reported under one recorded finding; canonical-name selection itself is decided at the aggregator level by C09. Creation-order permutations are covered by C16's workload.",
}

_GRAMMAR_RULE = ("Documents are derived at random from the EBNF of LANGUAGE.md (package directive with/without version and "
                 "`targets`; import statements with path/func/inline-interface/ident types and `as`; interface, world, variant, "
                 "record, flags, enum, alias, resource declarations with constructors/methods/statics; `use` with renames; world "
                 "imports/exports/includes with `with`; let/export statements with nested `new` expressions, all four argument "
                 "forms, access/named-access chains, nested parentheses, `as` and spread exports), 1-8 statements, type/expression "
                 "depth <= 3; identifiers include kebab-case, upper-case words and %-escaped keywords; strings include unicode, "
                 "newlines and comment-like text; layout is randomised (spaces, tabs, CRLF, line comments, nested block comments, "
                 "no separator where tokens cannot fuse). ")

PROPS["C12"] = {
    "shards": 16,
    "quick_budget_s": 60,
    "thorough_budget_s": 900,
    "floors": {"any": {"lexical:forbidden:c1-control": 1000, "lexical:forbidden:c0-control": 1000, "lexical:forbidden:bidi": 500, "positive:accepted": 1000, "mutant:delete:rejected": 1000, "mutant:substitute:rejected": 1000,
                       "mutant:swap:rejected": 1000, "mutant:duplicate:rejected": 1000, "mutant:insert:rejected": 1000,
                       "mutant:substitute:still-grammatical": 20, "lexical:forbidden-codepoint-rejected": 500,
                       "lexical:bad-token-rejected": 500, "production:targets-clause": 100, "production:arg-fill-not-last": 50,
                       "production:include-with": 50, "production:static-method": 50, "production:id-escaped": 500}},
    "rule": _GRAMMAR_RULE + "Positive side: every generated document must parse and its serialised tree (spans and doc comments "
            "removed) must equal the tree the generator built alongside the tokens. Negative side: 10 token-level mutants per "
            "document (delete / duplicate / substitute / swap-adjacent / insert, sometimes two) rendered with single spaces so the "
            "token sequence is unambiguous; wac must accept exactly when the reference recogniser (recursive descent written from "
            "the EBNF) accepts, and every rejection must carry a label inside the source on char boundaries. Lexical negatives: a "
            "bidi/deprecated/control code point inserted at a random position (also inside comments and strings), unterminated "
            "string/comment, stray characters, invalid semver after `@`, empty record/variant/enum/flags/tuple bodies. "
            "Non-trivial: document with >= 3 statement/declaration kinds; distinct by token text with digits removed. Separators between tokens include block comments generated from pieces that put `/`, `*` and delimiters next to each other (`/*/`, `**/`, nesting), validated by a reference nesting scanner, and their unterminated variants as negatives; forbidden code points are drawn from the whole classes (C0 controls other than tab/LF/CR, DEL, C1 controls U+0080..U+009F, bidirectional overrides and isolates, deprecated code points). Generated texts may end inside trivia: a `//` comment running to the end of the input without a newline, a block comment, or bare whitespace.",
    "assumptions": ["the parser's nesting limit (64 levels of types / expressions, fix cadc1f0) is an implementation limit outside the EBNF; generated documents nest at most 3 levels, so the recogniser does not model it", "reference `id` admits upper-case words (WIT acronyms) as the implementation's token rule does",
                    "an argument list may be empty and `...` may stand at any argument position syntactically ('must be last' is an evaluation rule, C04)",
                    "`results ::= type` only: the EBNF's named result list was removed from WIT and is documentation staleness, not a defect",
                    "`borrow<id>`: a borrow names a resource",
                    "`_` may stand for either arm of `result<..>` (`result<_>`, `result<T, _>`): the repository's fixture missing-ok-result-type.wac relies on it, so this is intended leniency, not a defect",
                    "doc comments are not compared here (C13 compares them); note: wac loses doc comments that follow a CR LF line ending, which no given property covers"],
    "technique": "runtime monitor: reference recogniser + generator-side tree as oracle over grammar-generated documents and token-level mutants",
    "level_text": "Acceptance is compared with an independent recogniser on ~10^4-10^6 near-miss token sequences per run and the tree is "
                  "compared with the generator's model on every positive; this decides 'accepts exactly the language' on the sampled "
                  "strings, which a list of fixed accepted snippets cannot.",
    "level_note": "The recogniser encodes our reading of the EBNF with the four documented deviations; held on sampled strings only.",
}

PROPS["C13"] = {
    "shards": 16,
    "quick_budget_s": 60,
    "thorough_budget_s": 900,
    "floors": {"any": {"roundtrip-ok": 2000, "repo-wac-files": 100, "production:targets-clause": 100,
                       "production:arg-fill-not-last": 50, "production:static-method": 50, "production:use-rename": 100,
                       "production:include-with": 50, "production:id-escaped": 500, "production:doc-comment": 500}},
    "rule": _GRAMMAR_RULE + "Every .wac file found under the repository (tests, examples) and every generated document is parsed, "
            "printed (p1), re-parsed and printed again (p2): parse(p1) must succeed, the span-stripped trees must be equal with doc "
            "comments compared as lists of trimmed non-empty lines, and p2 must equal p1 byte for byte. Non-trivial: >= 3 "
            "statement/declaration kinds; distinct by token sequence.",
    "assumptions": ["'up to doc-comment line splitting' = docs compared as the list of trimmed non-empty lines"],
    "technique": "runtime monitor: algebraic round-trip laws (parse∘print = id on trees, print idempotent) over generated and shipped documents",
    "level_text": "The laws are evaluated on every accepted document of the workload, including every construct the statement lists "
                  "(evidence.observed.production:* counts how often each was printed).",
    "level_note": "Held on generated + shipped documents; repo fixtures that do not parse are counted as not-accepted and skipped.",
}

PROPS["C04"] = {
    "shards": 16,
    "quick_budget_s": 60,
    "thorough_budget_s": 900,
    "floors": {"any": {"compositions-equal-to-the-reference-evaluation": 8000, "ill-formed-programs-rejected-with-the-right-diagnostic": 5000,
                       "instantiations-compared": 15000, "exports-compared": 10000,
                       "rule:inferred:1-package-path-of-the-instance": 300, "rule:inferred:2-import-or-export-name": 50,
                       "rule:inferred:3-unique-path-ending-with-local-name": 80, "rule:inferred:4-local-name": 100,
                       "rule:named:identifier-matches-unique-path": 1000, "rule:named:identifier-itself": 800, "rule:named:string-is-exact": 2000, "mutation:identifier-argument-name-as-string": 30,
                       "rule:spread:fills-unspecified-arguments-in-order": 2000, "rule:fill:implicit-import": 10000,
                       "rule:access:unique-path-ending-with-id": 2000, "rule:access:identifier-itself": 4000, "rule:named-access:exact-name": 10000,
                       "rule:export:as-name": 5000, "rule:export:import-or-accessed-name": 3000, "rule:export:package-path-of-the-instance": 1500,
                       "rule:export:spread-skips-existing-names": 2000, "rule:import:as-name": 2000, "rule:import:path-is-the-name": 2000,
                       "rule:import:local-name-is-the-name": 3000,
                       "fault:UndefinedName": 200, "fault:DuplicateName": 200, "fault:MissingArgument": 60, "fault:DuplicateArgument": 30,
                       "fault:AccessOnNonInstance": 500, "fault:SpreadOfNonInstance": 500, "fault:FillNotLast": 40, "fault:SpreadArgumentNoMatch": 200,
                       "fault:DuplicateExportName": 200, "fault:UnknownArgumentName": 300, "fault:ArgumentTypeMismatch": 60,
                       "fault:MissingExport": 500, "fault:ExportNeedsName": 400}},
    "rule": "A fixed library of 7 component packages (a source exporting everything; consumers importing interface paths `ns:lib/a`, `ns:lib/b`, a "
            "versioned `ns:ver/d@1.2.0`, two paths with the same last segment `ns:lib/a` + `ns:other/a`, plain function and instance imports, "
            "and one importing both `ns:lib/a` and a plain `a`) and 3 WIT packages. Each case builds a program of 2-9 statements as a small AST: "
            "imports by path / inline interface / function type with and without `as`, lets of `new` (inferred, identifier-named, string-named, "
            "spread and `...` arguments in random order, nested `new` and parentheses in argument values), access and named-access chains, exports "
            "with inferred name, `as` and spread; local names are drawn from the last segments of the library's paths so that every inference "
            "rule competes. One program in three then receives one fault (undefined name, duplicate name, missing / duplicate / unknown / "
            "ill-typed argument, `...` not last, access or spread of a non-instance, spread without match, missing export, duplicate export, "
            "export without a name). The reference evaluator M3, written from LANGUAGE.md, evaluates the AST to provenance terms "
            "(instantiation = package hash + argument name -> source term; export name -> term; import names) or to the fault that the first "
            "ill-formed statement has. wac parses the printed text, resolves and encodes it (define_components, validate); the independent "
            "decoder D1 gives the output's terms. Checked: instantiations equal as multisets, exports by name and binding, import names; a "
            "program M3 rejects is rejected by wac with the corresponding diagnostic and vice versa. Non-trivial: every program; distinct by "
            "the set of reference rules exercised, the mutation and the outcome.",
    "assumptions": ["LANGUAGE.md does not say which name an export statement infers for an instance that has both a package path and an import name, nor the order in which "
                    "several faults of one statement are reported: the evaluator follows the implementation there (path first; argument order)",
                    "type compatibility of an argument is decided on type identities of the fixed library (same interface / same signature), which is what C07 checks in general",
                    "type statements (interface/world/type declarations) are C05's subject and do not occur in these programs"],
    "technique": "runtime monitor: reference evaluator (executable model of LANGUAGE.md) + independent decoder on the encoded output",
    "level_text": "Every generated program is evaluated by an executable reading of LANGUAGE.md and the wiring decoded from wac's output must be the same composition.",
    "level_note": "Held on the generated programs over one fixed package library; other library shapes are exercised by C01-C03.",
}

PROPS["C05"] = {
    "shards": 16,
    "quick_budget_s": 60,
    "thorough_budget_s": 900,
    "floors": {"any": {"directed:import-and-export-orders": 64, "packages-encoded-by-both": 5000, "interfaces-compared": 12000, "worlds-compared": 10000,
                       "world-items-compared": 8000, "worlds-one-way-checked": 1500, "feature:use-foreign": 1000,
                       "feature:use-rename": 1000, "feature:include-with": 800, "feature:resource": 1500}},
    "rule": "Directed: all 64 ordered selections of {import a, export a, import b, export b} as the items of one world, b using a resource of a (which `a` a `use` denotes depends on what precedes it), compared without the zone of the recorded finding. "
            "Random: each case draws 0-1 dependency packages (optionally versioned) and one package text inside the shared WIT/WAC subset: "
            "1-4 interfaces (records, variants, enums, flags, aliases, lists/options/results/tuples, resources with constructors, "
            "methods and statics, own/borrow handles, `use` of local and foreign interfaces with renames, chains and diamonds) and "
            "1-3 worlds (interface imports/exports by name and by package path, plain functions, inline interfaces, `include` and "
            "`include .. with { a as b }`). The same text is encoded by wit-parser + wit-component (reference) and by wac "
            "(Document::parse -> resolve -> encode, define_components=true); the only textual difference is the `;` WAC requires "
            "after an inline interface and after `include .. with {..}` (WIT forbids it there). Both binaries are nested in one "
            "reference validator. Checked: wac accepts every text the reference accepts, without panicking; wac's binary validates; "
            "every interface and world is exported by both under the same name; for every interface the two enclosing component "
            "types are mutual subtypes under wasmparser's relation (compared at the component-type level so the validator maps the "
            "abstract resources of the two encodings onto each other); for every world all explicit items exist on both sides, export "
            "name sets are equal, wac invents no plain-named item, explicit items are pairwise mutual subtypes when the text has no "
            "resources, and when both worlds import the same names wac's world type is a subtype of the reference's. Non-trivial: "
            "texts with >= 2 interfaces and a `use`, or an include; distinct by text with digits removed.",
    "assumptions": ["implicit (dependency) imports of worlds are outside the property: the reference imports a dependency interface whole, wac "
                    "imports its types only, and when a dependency is also exported the reference routes the `use` to the export; such "
                    "differences are counted (worlds-differ-only-in-dependency-imports-or-resources) and not reported",
                    "texts the reference toolchain rejects (e.g. `interface transitively depends on an interface in incompatible ways`) are skipped and counted",
                    "world-level `use`, world-level type definitions, stream/future/fixed-length lists and feature gates are outside the generated subset"],
    "technique": "runtime monitor: differential oracle (reference WIT toolchain) + reference-validator subtype relation on nested encodings",
    "level_text": "Every generated declaration text is pushed through both toolchains and the resulting types are compared by the reference validator's own subtype relation in both directions.",
    "level_note": "Held on the generated subset of the shared WIT/WAC grammar; dependency-import routing of worlds is not compared.",
}

PROPS["C06"] = {
    "shards": 16,
    "quick_budget_s": 60,
    "thorough_budget_s": 900,
    "stuck_s": 300,
    "floors": {"any": {"encode-probe:wiring-compared": 50000, "histories": 1000, "invariant-checks": 20000, "exhaustive-histories": 100000, "op:remove": 2000,
                       "op:unregister": 500, "op:set:ok": 300, "op:unset:ok": 50, "op:export:ok": 1000, "op:unexport": 500,
                       "op:define:ok": 1000, "op:alias:ok": 300, "encode-probe:ok": 2000,
                       "op:set:ok:node-already-feeds-another-argument": 40, "op:unset:ok:node-still-feeds-another-argument": 8}},
    "rule": "Random part: libraries of 2-3 WIT-derived components (1-3 interfaces, no resources, no versions) and a universe of 8 "
            "definable types (record, list<record>, option<list<record>>, tuple<record,list>, alias, primitive alias, func type, "
            "resource); histories of 8-200 operations drawn over live identifiers from register/unregister package, define_type, "
            "import (kind of an argument / plain type), instantiate, alias_instance_export, set/unset argument (biased to "
            "type-compatible sources; components may import one function signature under two names, so one node can feed two "
            "arguments of one instantiation and lose one of them again), export (valid, invalid and import-only names), unexport, set_node_name, remove_node. After "
            "EVERY operation: return value / error variant vs reference model M1, full query snapshot (nodes with kind, package, "
            "name, export name, arguments; get_export for every name ever used; imports(); packages()) vs the model, and the "
            "guarded verif_invariants() hook; every 8 operations an encode probe on a clone. Exhaustive part: after a fixed prefix "
            "(register 2 packages, instantiate both) EVERY sequence of 5 (quick) / 6 (thorough) applicable operations over a tiny "
            "universe (2 export names, 3 definable types, all live nodes) with the same checks. Non-trivial: a history with a "
            "removal/unregister after an edge was created; distinct by hash of the operation-kind sequence.",
    "exhaustive_note": "exhaustive: true refers to the depth-bounded enumeration over the tiny universe only (evidence.notes.exhaustive_depth); the random long histories are sampled Histories also alias exports of aliased instances (aliases of aliases); after every history that encodes to a valid component the output is compared with the surviving graph by C02's translation check (instantiations, exports, embedded components, name section).",
    "assumptions": ["type-compatibility verdicts of set_instantiation_argument are taken from the implementation (C07 decides them); the model decides everything else",
                    "'unexport' means the node is no longer exported under any name; 'remove' frees every name the node held",
                    "the encode probe stays out of states where a defined type mentions the record t0 while t0 is undefined (the API cannot express that requirement)"],
    "technique": "runtime monitor: lock-step reference model + guarded invariant hook + encode probe over random long and exhaustively enumerated short operation histories",
    "level_text": "Every public mutation is mirrored in a naive model and every query compared after each step; the hook checks the "
                  "private bookkeeping (satisfied set = incoming argument edges, maps reference live nodes, package table) at each "
                  "quiescent point. Stale state that only shows after particular interleavings (set-remove-set, export twice-"
                  "unexport-remove, diamond dependants) is reached both by enumeration of all short histories and by long random ones.",
    "level_note": "Depth bound on the exhaustive part; universe sizes as stated. Hook compiled in through cargo feature `verif`.",
}

PROPS["C17"] = {
    "shards": 16,
    "quick_budget_s": 60,
    "thorough_budget_s": 900,
    "floors": {"any": {"position:new:nested-in-a-later-named-argument": 1000, "discovered-set-equals-reference-set": 3000, "three-way-outcomes-equal": 3000, "self-instantiation-rejected": 300,
                       "outcome:ok": 2000, "position:targets": 500, "position:import:package-path": 500,
                       "position:import:inline-interface:use": 500, "position:interface:use": 500, "position:world:use": 500,
                       "position:world:import-path": 500, "position:world:export-path": 500,
                       "position:world:import-inline-interface:use": 500, "position:world:export-inline-interface:use": 500,
                       "position:world:include": 500, "position:let:new": 1500, "position:export:new": 1000,
                       "position:new:nested-in-named-argument": 1000, "position:new:nested-in-parentheses-in-named-argument": 500,
                       "position:new:nested-in-double-parentheses": 500, "position:own-package-path": 400}},
    "rule": "Each case assembles a document `package test:doc [targets P/w1[@v]];` from 1-6 statements drawn from fragments that know which "
            "package keys they mention: `import x: P/i0[@v]`, `import x: interface { use P/i0[@v].{..} }`, `interface { use .. }`, worlds "
            "with `use`, `import P/i0[@v]`, `export P/i1[@v]`, inline interfaces (imported and exported) containing `use`, "
            "`include P/w1[@v]`, paths into the document's own package, `let`/`export` of `new C[@v] {..}` with further `new`s nested in "
            "named arguments, in one and two levels of parentheses, beside `...` and `...x`, up to depth 3. P ranges over two WIT packages at "
            "unversioned/versioned keys (same name at two versions in one document), C over six component packages (two at the same "
            "name with different versions); one document in ten also names packages or versions that do not exist; one in eight puts "
            "the document's own package at a random `new`. Checked: wac_resolver::packages returns exactly the set of mentioned keys "
            "(never the own package; CannotInstantiateSelf for a self instantiation wherever it is nested); Document::resolve + encode "
            "gives the same outcome (same SHA-256 of the bytes, or the same rendered error) when supplied the whole 13-package library, "
            "the discovered packages only, and the discovered packages plus a random subset of the others. Non-trivial: every document; "
            "distinct by the sorted multiset of reference positions and the outcome class. The own package carries a version half of the time (paths into it stay unversioned); pass-through components with two imports give `new` expressions with two named arguments, each holding a nested `new`, in either order.",
    "assumptions": ["resolution stops at the first error, so references after a failing statement are only checked against the syntactic set "
                    "(about a quarter of the documents fail resolution on purpose or by construction)",
                    "panics of resolve/encode are C14's subject and are skipped here (counted as pipeline-panic-skipped)"],
    "technique": "runtime monitor: generator-side reference set + differential resolution (discovered-only vs supersets)",
    "level_text": "Every generated document's discovered package set is compared with the set the generator wrote into it, and resolution is run three times with different package supplies.",
    "level_note": "Held on the generated positions; positions the generator does not produce are not covered.",
}

PROPS["C19"] = {
    "shards": 16,
    "quick_budget_s": 120,
    "thorough_budget_s": 1500,
    "extra_builds": ["cli"],
    "env": {"WACVERIF_CLI": "{TARGET}/cli/release/wac"},
    "floors": {"any": {"compose:dep-path-with-equals-sign": 20, "compose:library-ok": 200, "compose:output-equal": 200, "compose:failure-equal": 300,
                       "compose:library-fails:parse": 30, "compose:library-fails:discovery": 30, "compose:library-fails:resolution": 30,
                       "compose:library-fails:encode": 20, "compose:library-fails:unknown-package": 30,
                       "text-output-assembled-and-compared": 100, "diagnostics-compared": 300,
                       "parse:output-equal": 30, "parse:failure-equal": 8, "plug:output-equal": 150, "plug:failure-equal": 60,
                       "targets:verdict-equal": 60, "targets:library-accepts": 10, "targets:library-rejects": 20}},
    "rule": "The `wac` binary is built from /repo (default features) and run as a child process with cwd and HOME in a scratch directory. "
            "compose (half of the cases): a C17 document, one in ten with a syntax error, two in ten extended by a fragment that "
            "encodes but does not validate; every mentioned package is written as <deps>/<ns>/<name>.wasm, <deps>/<ns>/<name>/<version>.wasm "
            "or a `--dep name=path` file (always the latter when a versions directory would shadow the unversioned file), one time in six a "
            "mentioned package is left out; deps dir is the default `deps` or `--deps-dir my-deps`; 4 (quick) or all 16 (thorough) "
            "combinations of -i/--import-dependencies, --no-validate, -t/--wat, -o/--output. Oracle: the in-process pipeline parse -> "
            "packages -> FileSystemPackageResolver(dir, overrides, lenient) -> resolve -> encode{define=!i, validate=!no-validate}: exit 0 "
            "iff it succeeds; stdout (or the -o file, with stdout empty) equals its bytes, or with -t their wasmprinter text (+ newline on "
            "stdout), which must assemble (wat) to a valid component with the same import/export names that prints to the same text; on "
            "failure a non-zero exit, a diagnostic containing the library error's message, nothing on stdout and no output file. parse: "
            "stdout equals the pretty JSON of the tree + newline, or failure as above. plug: 1-4 plug files (distinct and equal file stems, in "
            "different directories) and a socket, x -t x -o, every invocation repeated 4-6 times in separate processes (fresh hash seeds); "
            "oracle: plug() on packages named `plug:<stem>[<i>]` registered in command-line order, encode with default options. targets: a "
            "world and a component drawn from one family of imports/exports, with --world omitted / right / wrong and one or two worlds in the "
            "file; oracle: validate_target on the encoded WIT. Non-trivial: every invocation; distinct by command, flag combination, outcome class.",
    "assumptions": ["a package that is not on disk makes the CLI fall back to the registry client, which cannot be reached in this sandbox: for those runs "
                    "only `non-zero exit, diagnostic, no output` is compared, not the text of the diagnostic",
                    "`wac targets` takes the world file with --wit in this tree (README shows a positional argument); the flags the binary accepts are used",
                    "the binary is built with default features (no `wat`), the in-process oracle has `wat` enabled: no .wat files are placed in the layouts (C18 covers that)",
                    "`wac resolve` (DOT output) is not part of the property and is not run"],
    "technique": "runtime monitor: differential oracle, child process of the built binary vs in-process library pipeline",
    "level_text": "The built binary is exercised under all documented flag combinations and its observable behaviour is compared byte for byte with the library.",
    "level_note": "Held on the generated compositions and flag combinations; registry-backed resolution through the CLI is out of reach offline.",
}

PROPS["C18"] = {
    "shards": 8,
    "workers": ["worker", "worker-nowat"],
    "extra_builds": ["nowat"],
    "quick_budget_s": 120,
    "thorough_budget_s": 300,
    "floors": {"any": {"evaluations": 1296, "outcome:bytes": 600, "outcome:failure": 200, "outcome:skipped": 100, "outcome:unknown": 100}},
    "rule": "Exhaustive decision table over real temporary directory trees: 6 package keys (2-3 name segments; unversioned, "
            "1.0.0, 0.0.1, pre-release+build, 10.20.30) x 9 layouts at the candidate path <deps>/ns/name[/<version>] (absent, WIT "
            "directory, empty directory, .wasm only, .wat only, both, .wasm + malformed .wat, plain file at the candidate path + "
            ".wasm, only the decoys a `set_extension` implementation would read such as 1.0.wasm for 1.0.0) x 6 override states "
            "(none, .wasm, .wat, .wit, dangling, directory) x both unknown-package modes = 648 rows, each run in two lanes: "
            "wac-resolver built with its `wat` feature (main harness) and without it (harness-nowat). Oracle: the documented "
            "lookup (README.md) written as a table, with returned bytes compared (SHA-256) against the file bytes / the harness's "
            "own wat::parse / wit_component::encode. Non-trivial: any row with something on disk or an override; all rows distinct.",
    "exhaustive_note": "the whole 648-row product is enumerated in both feature lanes on every run (quick = thorough)",
    "assumptions": ["an override must be an existing *file* (a directory given as override is a resolution failure)",
                    "with the `wat` feature off a .wat file is never looked at and a .wat override is returned as raw bytes",
                    "wit_component::encode / wat::parse are deterministic, so byte equality is the right comparison"],
    "technique": "runtime monitor: decision-table oracle over exhaustively enumerated real directory layouts, two feature lanes",
    "level_text": "Every row of the documented lookup table is materialised as a real directory tree and resolved by the real "
                  "FileSystemPackageResolver in both build configurations; outcome class and returned bytes must match the table.",
    "level_note": "The table is our reading of README.md and of the property statement; symlinks, permissions and non-UTF-8 names are out of scope.",
}

PROPS["C10"] = {
    "shards": 16,
    "quick_budget_s": 60,
    "thorough_budget_s": 900,
    "floors": {"any": {"two-versions:wiring-as-expected": 14, "plug:ok": 500, "plug:no-plug": 100, "plug:graph-error": 100, "plug:ok-with-semver-fallback": 50, "valid-outputs": 400}},
    "rule": "Each case draws a WIT library (2-4 interfaces, value types only, always versioned: same track / other track / second "
            "package), a socket world (imports: at most one interface per semver track + up to 3 plain functions with one of 4 "
            "fixed signatures; exports: interfaces and a function) and an ordered list of 1-4 plug worlds whose exports are drawn "
            "relative to the socket's imports: the same name, another version on the same track, the same function name with the "
            "same or a different signature, unrelated names, or nothing matching; plugs may import things themselves. The real "
            "components are built with wit-component and re-read by the independent decoder (wit-component drops unused imports "
            "and adds `use` dependencies, and the model works on what the binaries really import/export). Model: per plug export, "
            "exact name first, else the first socket import on the same track, and only if the export subsumes the import (names "
            "and definitions) or the function signatures are identical; two offers for one import => GraphError, none => "
            "NoPlugHappened, else the supplier map. After Ok: socket arguments = map, contributing plugs instantiated once, idle "
            "plugs not at all, every socket export re-exported as alias of the socket instance, output valid (wasmparser), wiring "
            "= graph (C02 decoder), unmatched socket imports still imported, plugged ones not. Non-trivial: Ok plugs; distinct by "
            "(supplier shape, #plugs, #imports).",
    "assumptions": ["later versions on a track are supersets by construction, so compatibility across versions is subsumption of names and definitions",
                    "sockets never import two interfaces on one track (the statement is ambiguous there)"],
    "technique": "runtime monitor: reference plug model (name / semver / type matrix) vs plug() result, graph queries, validator and independent decoder",
    "level_text": "The whole name x version x type matrix of socket imports and plug exports is sampled and the model predicts success, the "
                  "supplier of every import, ambiguity and no-match errors; outputs are validated and decoded.",
    "level_note": "Resources are excluded from C10 libraries (their cross-interface identity is the subject of a recorded C01 finding).",
}


def _c16_post(total, violations, inconclusive, rundir):
    """Cross-process comparison: every label must have one digest across all replicas."""
    by_label = {}
    replicas = total["notes"].get("list:digests", [])
    for r in replicas:
        for label, digest in r["digests"]:
            by_label.setdefault(label, {}).setdefault(digest, []).append(r["replica"])
    total["counters"]["labels-compared"] = len(by_label)
    total["counters"]["replicas"] = len(replicas)
    differing = 0
    for label, digs in sorted(by_label.items()):
        if len(digs) > 1:
            differing += 1
            kind = label.split(":")[0]
            what = label.split(":")[-1] if kind != "fixture" else "pipeline"
            violations.append({"prop": "C16", "seed": 0, "tier": "", "case": 0,
                               "sig": f"C16:differs-across-processes:{kind}:{what}",
                               "detail": f"{label}: {len(digs)} different digests across {len(replicas)} processes: "
                                         + "; ".join(f"{d[:40]} in replicas {rs}" for d, rs in digs.items()),
                               "input": {"label": label}})
        # a label missing from some replica means that replica produced something else
        seen = sum(len(v) for v in digs.values())
        if seen != len(replicas):
            inconclusive.append(f"label {label} recorded by {seen} of {len(replicas)} replicas")
    probes = set(total["notes"].get("list:hash_probe", []))
    total["counters"]["distinct-hash-orders-observed"] = len(probes)
    total["counters"]["labels-differing"] = differing
    total["notes"].pop("list:digests", None)
    total["notes"]["hash_probe_orders"] = sorted(probes)[:8]


PROPS["C16"] = {
    "replicate": {"quick": 8, "thorough": 24},
    "post": _c16_post,
    "quick_budget_s": 90,
    "thorough_budget_s": 900,
    "floors": {"any": {"program:ok": 800, "multi-fault:diagnostic": 30, "history-with-removals:ok": 500, "distinct-hash-orders-observed": 2, "labels-compared": 300, "composition:ok": 300,
                       "document:printed": 300, "document:diagnostic": 300, "fixture:encoded": 100, "fixture:failed": 400}},
    "rule": "Every one of N fresh worker processes (8 quick / 24 thorough; each with its own std RandomState seeds) runs the same "
            "inputs: (a) generated compositions (3-8 instantiations of few packages so that many same-rank nodes exist, many "
            "implicit and explicit imports, and in 2/3 of the cases 12 type definitions added in a shuffled order so that base "
            "types are defined after their dependants), encoded in both dependency modes; (b) generated documents, printed, and "
            "the rendered diagnostic of a token-level mutant; (c) every fixture document of the repository run through "
            "parse -> discovery -> file-system resolver -> resolve -> encode (bytes or rendered diagnostic). SHA-256 of every "
            "output is recorded under a label; in-process repetition and an encode of a cloned graph are compared by the worker, "
            "digests across processes by the supervisor. evaluations counts executions over all processes; distinct_nontrivial "
            "counts distinct labels. The run is inconclusive unless at least 2 distinct HashMap iteration orders were observed. Histories with removals: a definition with 2-6 dependants is removed, 2-7 new definitions reuse the freed node slots, the graph is encoded; replayed three times in-process and compared across the replicated processes. Multi-fault documents: five fixed documents whose resolution fails with several simultaneous faults of one kind (unknown names in `include .. with`, imports outside the target world, exports missing from it, imports with mismatched types), resolved six times per process; the rendered diagnostic must be the same every time and in every process. WAC programs: programs from C04's generator (spreads that fill several arguments, fills, nested `new`s, spread exports) are resolved and encoded three times per process and the digests compared across processes.",
    "assumptions": ["per-process hash seeds cannot be forced, only observed (hash probe)"],
    "technique": "runtime monitor: cross-process and in-process digest comparison of all outputs under differing hash randomisation",
    "level_text": "Determinism is decided by re-executing identical inputs in several fresh processes with different hash seeds, on "
                  "cloned graphs and twice in one process, and comparing SHA-256 digests of component bytes, printed text and "
                  "rendered diagnostics.",
    "level_note": "Order leaks that need a specific hash seed can be missed with 8-24 processes; the probe shows how many orders were seen.",
}

PROPS["C14"] = {
    "shards": 16,
    "quick_budget_s": 60,
    "thorough_budget_s": 900,
    "stuck_s": 45,
    "alone_timeout_s": 60,
    "floors": {"any": {"parse:ok": 200, "parse:error": 2000, "from_bytes:ok": 100, "from_bytes:error": 1000,
                       "input:random-text": 100, "input:generated-doc-mutant": 1000, "input:truncation": 1000,
                       "input:fixture-mutant": 100, "input:package-mutant": 1000, "input:random-bytes": 100,
                       "input:shaped-wat-mutant": 100, "input:document-package-pairing": 100, "shaped-wat": 10, "shaped-binary": 1, "deep:nested-result-error-position": 4, "deep:nested-tuple-last-position": 4,
                       "chain:alias-chain": 3, "chain:list-chain": 3, "chain:use-chain": 3, "chain:include-chain": 3, "chain:nesting-inside-the-limit": 3}},
    "lanes": {"thorough": [{"name": "asan", "cases": 1500, "workers": 16, "budget_s": 900},
                           {"name": "miri", "cases": 2, "workers": 12, "budget_s": 1200}]},
    "rule": "Texts: random token/unicode soup; grammar-generated documents with 1-3 character-level edits (delete, insert "
            "punctuation / multi-byte / bidi / NUL characters, replace, swap, duplicate a chunk, truncate) and truncation at every "
            "character boundary of small documents; character-level mutants of the repository's fixture documents; 14 kinds of "
            "deep nesting (parentheses, list<>, tuple<>, option<result<>>, result<> in the ok and in the error position, the last tuple position, types in a function signature and in a record field, nested `new`, parentheses in a named argument, nested block comments, access chains) at "
            "depths 10..100000 capped at 1 MiB of source (parser only); 5 kinds of long definition chains (type aliases, list<> of the "
            "previous type, interfaces `use`-ing the previous interface, worlds including the previous world, nesting just inside the "
            "parser's 64-level limit) of 10..3000 definitions through parse, resolve and encode. Packages: generated components and 6 byte-level mutants each "
            "(truncate, bit flip, byte replace, delete, insert, splice, extreme byte), random bytes with and without a "
            "component/module header, 14 hand-shaped WAT components/modules (core module types with tables/memories/globals/tags, "
            "memory64, shared, GC and shared heap types, value/instance/component imports, resources, async/stream/future) and "
            "their mutants. Pairings: fixture documents resolved with their packages intact, one missing, one corrupted, two "
            "swapped, or one replaced by a shaped component, then encoded. Every call (Document::parse, wac_resolver::packages, "
            "Document::resolve, Package::from_bytes, Resolution::encode) is wrapped: panic, abnormal exit (attributed by the "
            "supervisor to the case marked before execution), reproducible hang (> 45 s), a span outside the source or off a "
            "char boundary in a tree or diagnostic, and a diagnostic that does not render are refuting events. Non-trivial: "
            "every random case (distinct case seeds).",
    "assumptions": ["'never loops forever' is decided as 'finished within 45 s, twice' for inputs <= 1 MiB (bounded progress, not termination)",
                    "workers run with the default 8 MiB main-thread stack; stack exhaustion is reported with the nesting kind and depth",
                    "superlinear cost is not a refuting event as long as the call returns: a chain of 20000 interfaces each `use`-ing the previous one (717 KB of source) "
                    "takes ~5 min and ~8 GB to resolve and encode on this machine and then returns an error (observed once by hand, not part of the workload); "
                    "definition chains in the workload stop at 3000"],
    "technique": "runtime monitor: supervised execution (panic capture, crash/hang attribution) + span and rendering oracle over hostile inputs; sanitizer lanes in the thorough tier",
    "level_text": "Robustness is decided by executing the four entry points on tens of thousands of malformed inputs under a supervisor "
                  "that sees panics, aborts, signals and hangs, with every returned location checked against the source.",
    "level_note": "Coverage is of the generated corpus only; a clean run is not a memory-safety claim (wac itself contains no unsafe code).",
}

PROPS["C07"] = {
    "shards": 8,
    "quick_budget_s": 60,
    "thorough_budget_s": 600,
    "floors": {"any": {"func:wac-accepts": 50, "func:wac-rejects": 1000, "named-type:wac-rejects": 300, "instance:wac-accepts": 50,
                       "component:wac-accepts": 50, "module:wac-accepts": 200, "module:wac-rejects": 500, "reflexivity-checks": 100,
                       "memo-rounds": 10, "set-argument-verdicts": 3000, "resource-wiring:compositions": 10}},
    "rule": "Small-scope universe, enumerated completely: 59 function types (every one of 25 value types - primitives, list, option, "
            "all four result arms, tuples, nested - as the single parameter and as the result; arity, parameter-name, order and async "
            "variations), 23 named-type variations (record field rename/retype/add/reorder, variant and enum width/order/payload, "
            "flags, aliases) compared through instance types that export them, 21 instance types (width, nested instance / "
            "component / module / value / type exports), 18 component types (import and export width both ways, value imports), 50 "
            "core module types (function signatures, memory/table limits, memory64/table64, shared, element types, global "
            "mutability and type, tags, on both the import and the export side) and a mixed-kind set. The items of a category are "
            "the imports of ONE component, so wac's decoder and wasmparser read the same bytes; every ordered pair is checked with "
            "a fresh SubtypeChecker, with wasmparser's ComponentEntityType::is_subtype_of, and through set_instantiation_argument "
            "on a graph whose persistent cache accumulates over the whole category; laws: reflexive across two independent decodes "
            "(both directions), transitive on the verdict matrix, unchanged under 3 random orders sharing one memo. Random part: "
            "shuffled sub-universes, and libraries with resources where one provider exports exactly what a consumer imports and "
            "every accepted argument is wired: the encoding must validate. Non-trivial: ordered pair of different items.",
    "exhaustive_note": "all ordered pairs of the listed item universe are enumerated on every run; the shuffled sub-universes and resource wirings are sampled A further category `type-item` holds TYPE imports whose definition is an instance, component or defined type (`(type (eq $T))`, what a WIT package exports for an interface or world); it goes through the same reference comparison and memo-order law. The component category also holds components that import an instance with a resource and a function over an owned handle, a borrowed handle, a returned handle and lists of either: component-level subtyping maps the resources of the two sides, so the reference verdict decides these pairs too.",
    "assumptions": ["wasmparser 0.247 ComponentEntityType::is_subtype_of is the reference relation",
                    "pairs differing in the table64 flag are not compared with the reference: wasmparser's module-type matching ignores that flag, wac's stricter verdict follows the core spec and is pinned by the repository's test mismatched_table64_is_rejected",
                    "pairs involving resource types are only checked for the algebraic laws and, in the wiring workload, for validity"],
    "technique": "runtime monitor: differential oracle against wasmparser's subtype relation on identical bytes + algebraic laws over the verdict matrix",
    "level_text": "Every verdict of the checker on the enumerated universe is compared with the reference validator's own subtype "
                  "relation, and the relation's laws (reflexive, transitive, memo-independent, same through the graph API) are checked on "
                  "the full matrix; an omitted comparison shows up as a disagreeing pair.",
    "level_note": "Depth <= 2 universe; deeper types only through the WIT-derived resource-wiring workload.",
}

PROPS["C08"] = {
    "shards": 16,
    "quick_budget_s": 60,
    "thorough_budget_s": 900,
    "floors": {"any": {"async-functions-checked": 5, "shaped-signatures-equal": 8, "components": 400, "signatures-equal": 2000, "value-types-equal": 500, "resource-identities-checked": 100,
                       "use-provenance-checked": 100, "mutual-subtype-checks": 400,
                       "dep-type:actual-component-satisfies-written-type": 300}},
    "rule": "Each case draws a WIT library (1-4 interfaces with records/variants/enums/flags/lists/options/results/tuples of depth "
            "1-3, resources with constructors/methods/statics and own/borrow handles, chains of `use` with renames inside and "
            "across packages, optional versions) and 1-3 worlds (interface imports/exports, plain functions, inline interfaces) "
            "built into real components by wit-component. For every component: Package::from_bytes must succeed; the world's "
            "import and export names, order and kinds must equal what the independent decoder reads from the binary; the instance "
            "type must equal the exports; every function of every imported/exported interface must have the model's parameter "
            "names, order, structural types (records/variants/... expanded, handles by original resource name), result and async "
            "flag; surviving type exports must equal the model structurally; `self` of every method must borrow the resource it "
            "belongs to; every surviving `use` must record the right source interface (up to the version wit-component merged it "
            "to) and original name; two independent decodes must be mutual subtypes; and the component, instantiated alone with "
            "imported dependencies, must satisfy (wasmparser subtype relation, both nested in one validator) the component type "
            "wac wrote for its `unlocked-dep` import. Non-trivial: every generated component; distinct by world text with digits "
            "removed. Shaped WAT components add what WIT-derived components cannot carry: `async` functions as plain imports, inside imported instances (two levels deep) and inside imported component types (imports and exports); their decoded signatures (async flag, parameter names, result) are compared with the text and the component type written for them must be satisfiable.",
    "assumptions": ["wit-component prunes unused types of imported interfaces and merges dependency imports across compatible versions; "
                    "only items present in the binary are compared",
                    "shaped WAT items (nested component/instance/module/value/type imports and exports) are covered by C07's universe, which is decoded by the same code path"],
    "technique": "runtime monitor: generator-model oracle on the decoded types + reference-validator subtype oracle on the re-encoded dependency type",
    "level_text": "The decoder's output is compared field by field with the model the component was generated from, and the type wac "
                  "writes for an imported dependency is checked against the real component with the reference validator's own relation.",
    "level_note": "Held on generated WIT shapes; the model compares structure after alias expansion, so alias bookkeeping itself is only checked through `use` provenance.",
}

PROPS["C09"] = {
    "shards": 16,
    "quick_budget_s": 60,
    "thorough_budget_s": 900,
    "floors": {"any": {"aggregate:ok": 1500, "aggregate:conflict": 200, "permutations": 20000, "upper-bound-checks": 4000,
                       "idempotence-checks": 1500, "wit:aggregate:ok": 200, "wit:upper-bound-checks": 1000, "wit:permutations": 1000}},
    "rule": "Shaped workload: 2-5 requirements per case, each decoded into ITS OWN type collection from a one-import component; names "
            "drawn from one interface on several tracks (1.0.0/1.1.0/1.2.5, 2.0.0, 0.3.1/0.3.2, 0.0.1/0.0.2, a pre-release, unversioned), "
            "another interface and plain names; instance requirements export random subsets of 5 functions whose signature is one of 3 "
            "variants (a quarter of the cases make one contributor deviate: a conflict), plain function and resource requirements. "
            "Checked: aggregation fails exactly when the conflict model says two requirements of one group disagree; ALL "
            "permutations (n <= 4, else 24 random ones) give the same verdict, the same canonical names and structurally equal "
            "imports (export order ignored); canonical name = highest version of the group (semver crate), is imported, and there is "
            "one import per group; the merged type is a subtype of every contributor; merged instances export exactly the union; "
            "equal function/resource requirements merge to themselves; aggregating everything twice equals once. WIT workload: "
            "requirements = all imports of 2-4 generated components over versioned libraries with resources and `use` across "
            "merged interfaces (one type collection per component): upper bound, canonical = highest contributed version, same "
            "names and imports for 6 random orders, no conflict (versions are compatible by construction). Non-trivial: a case in "
            "which at least two names merge or a name is contributed twice.",
    "assumptions": ["later versions are supersets by construction in the WIT workload"],
    "technique": "runtime monitor: algebraic-law oracle (upper bound, union, idempotence, permutation invariance, keep-highest) + conflict model on TypeAggregator",
    "level_text": "The merger is driven with thousands of requirement multisets in every order and its results are checked against the laws "
                  "the property states and a model that predicts conflicts.",
    "level_note": "Export order of merged instances is not compared (the statement allows 'up to import order').",
}

PROPS["C11"] = {
    "shards": 16,
    "quick_budget_s": 60,
    "thorough_budget_s": 900,
    "floors": {"any": {"handle-kind:differs": 300, "handle-kind:same": 300, "type-shadow:only-a-type-of-that-name": 300, "type-shadow:really-exported": 200, "merged-import:world-offers-less-than-the-union": 30, "merged-import:world-offers-the-union": 60, "pair:None": 200, "pair:Superset": 50, "pair:ImportRemoved": 50, "pair:ExportAdded": 50, "pair:NothingExported": 50,
                       "pair:ImportTypeChanged": 50, "pair:ExportTypeChanged": 50, "pair:VersionShift": 5,
                       "resolve:accept": 200, "resolve:import-not-in-target": 50, "resolve:missing-export": 50,
                       "resolve:type-mismatch": 100, "reference:subtype": 100, "reference:not-subtype": 100}},
    "rule": "Each case draws a library (2-4 interfaces, half of the time versioned, a quarter with resources, `use` across "
            "interfaces), a component (0-2 interface imports, 0-2 interface exports, 1-2 plain function imports and exports with one "
            "of 3 signatures) and a target world derived from the component's own world by one perturbation: none, superset "
            "(extra imports, fewer exports), one import removed, one export added, the type of an import or of an export changed, "
            "an interface import shifted to another version on the same track, or (one case in eight of the accepting shapes) a "
            "composition that exports nothing at all against a world with exports. The document `package test:comp targets "
            "test:tgt/w; let i = new test:c0 { ... };` exports everything by spread or by named access. Verdicts compared: the "
            "expectation by construction, Document::resolve (Ok / ImportNotInTarget / MissingTargetExport / TargetMismatch), "
            "validate_target on (world package, output of the same document without the clause), and for resource-free libraries "
            "wasmparser's `output <: world` with both nested in one validator. Non-trivial: every pair; distinct by perturbation "
            "and world shape. Second workload (one case in five): two instantiations implicitly import one plain name with different, mergeable instance types; the world offers the union, or only what one of them needs; both `let` orders; all three checks must accept exactly when the union is offered. Third workload (one case in ten): the world requires a function / instance export and the document really exports it or only defines a type of that name (`type fx = func(..)`, `interface inl {..}`); a type definition never satisfies the world. Three directed witnesses reproduce the recorded resource-identity findings. Fourth workload (one case in ten): world and component agree except, half of the time, in the kind of a resource handle (`borrow<r>` against an owned `r`) in a parameter, inside a list, or next to other parameters, imported or exported.",
    "assumptions": ["the world package is encoded by wit_component::encode exactly as `wac targets` does"],
    "technique": "runtime monitor: four-way differential oracle (construction, resolver, stand-alone checker, reference validator subtyping)",
    "level_text": "Both implementations of conformance and an external reference are run on every generated pair and must agree with each "
                  "other and with what the pair was built to be.",
    "level_note": "Perturbations are single faults; resources are only compared between wac's two implementations.",
}
