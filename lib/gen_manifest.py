#!/usr/bin/env python3
"""Regenerates /verif/MANIFEST.json from lib/propcfg.py (run after editing propcfg)."""
import json
import os
import subprocess
import sys

HERE = os.path.dirname(os.path.abspath(__file__))
VERIF = os.path.dirname(HERE)
sys.path.insert(0, HERE)
from propcfg import PROPS, NOT_APPLICABLE, HOOK_COMMITS  # noqa: E402

ids = [json.loads(l)["id"] for l in open(os.path.join(VERIF, "properties.jsonl"))]
checks = []
for pid in ids:
    if pid not in PROPS:
        continue
    c = PROPS[pid]
    checks.append({
        "property_id": pid,
        "quick_cmd": f"./check {pid} --tier quick",
        "thorough_cmd": f"./check {pid} --tier thorough",
        "evidence_file": f"/verif/evidence/{pid}.json",
        "replay_cmd_template": f"./check {pid} --replay {{path}}",
        "engine": "wacverif",
        "level_claimed": {"category": "exploration", "text": c["level_text"], "design_ref": c.get("design_ref", f"DESIGN.md §5 {pid}")},
        "level_note": c["level_note"],
        "technique": c["technique"],
    })
na = [{"property_id": pid, "reason": NOT_APPLICABLE.get(pid, "check not built yet (work in progress; see DESIGN.md §5 for the planned monitor)")}
      for pid in ids if pid not in PROPS]
manifest = {
    "version": 1,
    "setup_cmd": "./check --setup",
    "hooks": {
        "guard": "verif (cargo feature on wac-graph and wac-resolver, off by default)",
        "enable": "the harness crates depend on /repo/crates/wac-graph and /repo/crates/wac-resolver by path with features = [\"verif\"]; `./check` rebuilds them from the working tree with `cargo build --release --offline`",
        "baseline_off_cmd": "cd /repo && RUST_BACKTRACE=0 cargo nextest run --workspace --no-fail-fast --test-threads 8 --offline || (cd /repo && RUST_BACKTRACE=0 cargo test --workspace --no-fail-fast --offline)",
        "source_commits": HOOK_COMMITS,
        "add_only": True,
    },
    "engines": [
        {"name": "wacverif", "path": "/verif/harness", "serves_properties": [c["property_id"] for c in checks],
         "kind_free_text": "Rust worker processes that execute the real wac crates (path dependencies on /repo, hooks on) under generated workloads with online monitors (reference models, independent decoder, reference validator); python3 supervisor ./check shards the workload, watches for crashes/hangs, merges event summaries, matches known findings and writes evidence"},
    ],
    "checks": checks,
    "not_applicable": na,
    "notes": "Technique family: runtime monitoring and sanitizers. Every verdict is 'held on the executions observed' (exit 0), 'violated' (exit 1 + VIOLATION line) or inconclusive (exit 2 + HARNESS-ERROR line: build failure, monitor observed fewer events than its floor). VERIF_SEED selects the workload; VERIF_BUDGET_S overrides the per-worker time budget.",
}
json.dump(manifest, open(os.path.join(VERIF, "MANIFEST.json"), "w"), indent=1)
print(f"MANIFEST.json: {len(checks)} checks, {len(na)} not_applicable")
