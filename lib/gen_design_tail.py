#!/usr/bin/env python3
"""Rebuilds the tail of DESIGN.md (sections 10-13) from doc/*.md, known_findings.json and seeded/*/."""
import glob, json, os, re
V = os.path.dirname(os.path.dirname(os.path.abspath(__file__)))
design = open(os.path.join(V, 'DESIGN.md')).read()
marker = '\n---------------------------------------------------------------------------------------------\n\n## 10. '
i = design.find(marker)
head = design if i < 0 else design[:i]
head = head.rstrip('\n') + '\n\n'
parts = [open(os.path.join(V, 'doc', n)).read() for n in ('10_built.md', '10_5_sanitizers.md', '11_false_alarms.md') if os.path.exists(os.path.join(V, 'doc', n))]

k = json.load(open(os.path.join(V, 'known_findings.json')))['findings']
def esc(t):
    return t.replace('|', '\\|').replace('\n', ' ')
s12 = ['', '-' * 93, '', '## 12. Genuine defects found by the checks', '',
       'Each entry was first a `VIOLATION` of a check on the tree as it then was, shown against the real code with the', 'failing input in the replay directory. `known_findings.json` is the authoritative, machine-read list; this is its rendering.', '',
       '### 12.1 Repaired (`fix:` commits in /repo, one defect each)', '', '| property | commit | what failed |', '|---|---|---|']
seen = set()
for f in k:
    if f['status'] == 'fixed':
        line = f.get('line', '')
        m = re.match(r'fixed: property=\S+ (\S+) (.*)', line)
        what = m.group(2) if m else line
        key = (f['property'], f.get('commit'), what[:60])
        if key in seen:
            continue
        seen.add(key)
        s12.append(f"| {f['property']} | `{f.get('commit','')}` | {esc(what)} |")
s12 += ['', 'The existing test suite (and the fixture suites that are not part of the pinned 59) passes unedited with every one of these', 'commits; a fixed entry suppresses nothing — the signature is reported again if it returns.', '',
        '### 12.2 Recorded, not repaired', '',
        'Not repaired because the repair is not small and safe (it changes a semantic choice of the encoder, needs a redesign of how', 'dependency types are decoded, or bounds recursion throughout a recursive-descent parser). Each is keyed on an exact signature and has a', 'directed witness; a different violation of the same property is still reported.', '',
        '| property | signature | what fails | witness |', '|---|---|---|---|']
for f in k:
    if f['status'] == 'known':
        s12.append(f"| {f['property']} | `{esc(f['sig'])}` | {esc(f.get('what',''))} | {esc(f.get('witness',''))} |")

s13 = ['', '-' * 93, '', '## 13. Seeded changes: which checks catch what', '']
intro = os.path.join(V, 'doc', '13_intro.md')
if os.path.exists(intro):
    s13.append(open(intro).read().rstrip('\n'))
    s13.append('')
rows = []
for d in sorted(glob.glob(os.path.join(V, 'seeded', '*'))):
    mp, rp = os.path.join(d, 'meta.json'), os.path.join(d, 'result.json')
    if not os.path.exists(mp):
        continue
    m = json.load(open(mp))
    r = json.load(open(rp)) if os.path.exists(rp) else {}
    rows.append(f"| `{os.path.basename(d)}` | {m.get('property','')} | {esc(m.get('summary',''))} | {esc(r.get('caught_by','(not run)'))} | {esc(r.get('note',''))} |")
if rows:
    total = len(rows)
    metas = []
    for d in sorted(glob.glob(os.path.join(V, 'seeded', '*'))):
        rp = os.path.join(d, 'result.json')
        if os.path.exists(rp):
            metas.append(json.load(open(rp)))
    first = sum(1 for r in metas if r.get('caught_by', 'nothing').split(' ')[0] != 'nothing' and 'missed at first' not in r.get('note', '') and 'were added when this change arrived' not in r.get('note', ''))
    later = sum(1 for r in metas if r.get('caught_by', 'nothing').split(' ')[0] != 'nothing') - first
    never = sum(1 for r in metas if r.get('caught_by', 'nothing').split(' ')[0] == 'nothing')
    s13 += [f'Summary: {total} seeded changes; {first} caught by the checks as they were when the change arrived, {later} caught after the', f'check named in the note was strengthened, {never} not caught (see the note: an equivalent change on the repaired tree).', '']
    s13 += ['| seeded change | aimed at | what it does | caught by (quick tier unless noted) | note |', '|---|---|---|---|---|'] + rows
else:
    s13.append('(no seeded change has been recorded yet)')
out = head + '\n'.join(p.strip('\n') for p in parts) + '\n' + '\n'.join(s12) + '\n' + '\n'.join(s13) + '\n'
open(os.path.join(V, 'DESIGN.md'), 'w').write(out)
print('DESIGN.md:', len(out.splitlines()), 'lines')
